import NasVerif.Prelude.Basic
/-!
# Generic NAS message codec: IR and interpreter

One `Slot` per information element of a message definition, as extracted by the translator from a
`Decode*` / `Encode*` function of `nasMessage`.  `decBody`/`encBody` are literal transcriptions of the
statement sequence the generator emits for one element; `decMan`/`decLoop` of the mandatory prefix and of
the `for buffer.Len() > 0 { … switch tmpIeiN … }` loop.
-/
namespace NasVerif.Codec
open NasVerif

/-- the `if a.X.Len …` guard, as written in the Go source -/
inductive Guard
  | none
  | range (lo hi : Nat)      -- `Len < lo || Len > hi`  → error
  | min (lo : Nat)           -- `Len < lo`
  | max (hi : Nat)           -- `Len > hi`
  | exact (n : Nat)          -- `Len != n`
  | oneOf (l : List Nat)     -- `Len != a && Len != b && …`
deriving DecidableEq, Repr, Inhabited

def Guard.ok : Guard → Nat → Bool
  | .none, _ => true
  | .range lo hi, n => lo ≤ n && n ≤ hi
  | .min lo, n => lo ≤ n
  | .max hi, n => n ≤ hi
  | .exact k, n => n == k
  | .oneOf l, n => l.contains n

/-- an upper bound implied by the guard, if any -/
def Guard.hi : Guard → Option Nat
  | .none => Option.none
  | .range _ hi => some hi
  | .min _ => Option.none
  | .max hi => some hi
  | .exact k => some k
  | .oneOf l => some (l.foldl Nat.max 0)

inductive Store
  | octet            -- `Octet uint8`
  | arr (n : Nat)    -- `Octet [n]uint8`
  | buf              -- `Buffer []uint8`
  | unit             -- `struct{}`
deriving DecidableEq, Repr, Inhabited

inductive Span
  | all              -- `&a.X.Octet`, `a.X.Octet[:]`, `a.X.Buffer`
  | toLen            -- `a.X.Octet[:a.X.GetLen()]`
deriving DecidableEq, Repr, Inhabited

structure Slot where
  lenSize : Nat            -- 0 (no length octets), 1, 2 (width of the `Len` field read with binary.Read)
  guard   : Guard
  store   : Store
  span    : Span
  alloc   : Bool           -- `SetLen` does `a.Buffer = make([]uint8, a.Len)`
  size    : Nat            -- struct size in bytes (allocation accounting only)
deriving DecidableEq, Repr, Inhabited

structure OptSlot where
  iei    : Nat             -- the `case` constant
  half   : Bool            -- `a.X.Octet = ieiN` (type-1 TV element; the IEI octet *is* the content)
  hasIei : Bool            -- the struct has an `Iei` field set by `NewX(ieiN)`
  slot   : Slot
deriving DecidableEq, Repr, Inhabited

structure MsgDef where
  man : List Slot
  opt : List OptSlot
deriving DecidableEq, Repr, Inhabited

/-- value of one information element: the `Iei`, `Len` fields (0 when the struct has none) and the
whole content storage (`[Octet]`, the `n` octets of the array, or `Buffer`) -/
structure IEVal where
  iei  : UInt8
  len  : Nat
  data : Bytes
deriving DecidableEq, Repr, Inhabited

abbrev Slots := List (Option IEVal)

structure MsgVal where
  man : List IEVal
  opt : Slots
deriving DecidableEq, Repr, Inhabited

/-! ## reading and writing lengths -/

def readLen : Nat → Bytes → Option (Nat × Bytes)
  | 0, bs => some (0, bs)
  | 1, b :: bs => some (b.toNat, bs)
  | 2, h :: l :: bs => some (h.toNat * 256 + l.toNat, bs)
  | _, _ => none

def lenBytes : Nat → Nat → Bytes
  | 0, _ => []
  | 1, n => [UInt8.ofNat n]
  | _, n => [UInt8.ofNat (n / 256), UInt8.ofNat n]

/-! ## one element -/

/-- the content read of one element, once its declared length `len` is known and accepted -/
def decContent (s : Slot) (iei : UInt8) (len : Nat) (bs1 : Bytes) : Outcome (IEVal × Bytes) :=
  match s.store with
  | .octet =>
    match bs1 with
    | [] => .err .trunc
    | b :: r => .ok (⟨iei, len, [b]⟩, r)
  | .arr n =>
    match s.span with
    | .all => if bs1.length < n then .err .trunc else .ok (⟨iei, len, bs1.take n⟩, bs1.drop n)
    | .toLen =>
      if n < len then .panic
      else if bs1.length < len then .err .trunc
      else .ok (⟨iei, len, bs1.take len ++ List.replicate (n - len) 0⟩, bs1.drop len)
  | .buf =>
    let k := if s.alloc then len else 0
    if bs1.length < k then .err .trunc else .ok (⟨iei, len, bs1.take k⟩, bs1.drop k)
  | .unit => .ok (⟨iei, len, []⟩, bs1)

/-- decode the body of one element (for an optional element: what follows the IEI octet) -/
def decBody (s : Slot) (iei : UInt8) (bs : Bytes) : Outcome (IEVal × Bytes) :=
  match readLen s.lenSize bs with
  | none => .err .trunc
  | some (len, bs1) =>
    if !s.guard.ok len then .err .badLen else decContent s iei len bs1

/-- the content octets an encoder writes for a value -/
def encContent (s : Slot) (v : IEVal) : Outcome Bytes :=
  match s.store, s.span with
  | .arr n, .toLen => if n < v.len then .panic else .ok (v.data.take v.len)
  | .unit, _ => .ok []
  | _, _ => .ok v.data

def encBody (s : Slot) (v : IEVal) : Outcome Bytes :=
  match encContent s v with
  | .ok c => .ok (lenBytes s.lenSize v.len ++ c)
  | .err e => .err e
  | .panic => .panic

/-- bytes allocated while decoding one element whose declared length is `len` -/
def slotAlloc (s : Slot) (len : Nat) : Nat :=
  s.size + (if s.alloc then len else 0) + (match s.store with | .buf => (if s.alloc then len else 0) | .arr n => n | .octet => 1 | .unit => 0)

/-! ## mandatory prefix -/

def decMan : List Slot → Bytes → Outcome (List IEVal × Bytes)
  | [], bs => .ok ([], bs)
  | s :: ss, bs =>
    match decBody s 0 bs with
    | .ok (v, rest) =>
      match decMan ss rest with
      | .ok (vs, rest') => .ok (v :: vs, rest')
      | .err e => .err e
      | .panic => .panic
    | .err e => .err e
    | .panic => .panic

def encMan : List Slot → List IEVal → Outcome Bytes
  | [], [] => .ok []
  | s :: ss, v :: vs =>
    match encBody s v with
    | .ok b =>
      match encMan ss vs with
      | .ok bs => .ok (b ++ bs)
      | .err e => .err e
      | .panic => .panic
    | .err e => .err e
    | .panic => .panic
  | _, _ => .panic     -- shape mismatch cannot be expressed in Go (fields are struct members)

/-! ## optional loop -/

/-- `if ieiN >= 0x80 { tmpIeiN = (ieiN & 0xf0) >> 4 } else { tmpIeiN = ieiN }` -/
def tmpIei (b : UInt8) : Nat := if 0x80 ≤ b.toNat then b.toNat / 16 else b.toNat

/-- first `case` of the `switch` whose constant equals `t`; `k` = index accumulator -/
def findSlot : List OptSlot → Nat → Nat → Option (Nat × OptSlot)
  | [], _, _ => none
  | d :: ds, t, k => if d.iei = t then some (k, d) else findSlot ds t (k+1)

def decOpt (d : OptSlot) (b : UInt8) (rest : Bytes) : Outcome (IEVal × Bytes) :=
  if d.half then .ok (⟨0, 0, [b]⟩, rest)
  else decBody d.slot (if d.hasIei then b else 0) rest

def decLoop (defs : List OptSlot) : (fuel : Nat) → Bytes → Slots → Outcome Slots
  | 0, _, s => .ok s
  | _, [], s => .ok s
  | fuel+1, b :: rest, s =>
    match findSlot defs (tmpIei b) 0 with
    | none => decLoop defs fuel rest s
    | some (i, d) =>
      match decOpt d b rest with
      | .ok (v, rest') => decLoop defs fuel rest' (s.set i (some v))
      | .err e => .err e
      | .panic => .panic

def encOne (d : OptSlot) (v : IEVal) : Outcome Bytes :=
  if d.half then .ok v.data
  else match encBody d.slot v with
    | .ok b => .ok ((if d.hasIei then [v.iei] else []) ++ b)
    | .err e => .err e
    | .panic => .panic

def encOpts : List OptSlot → Slots → Outcome Bytes
  | d :: ds, some v :: vs =>
    match encOne d v with
    | .ok b =>
      match encOpts ds vs with
      | .ok bs => .ok (b ++ bs)
      | .err e => .err e
      | .panic => .panic
    | .err e => .err e
    | .panic => .panic
  | _ :: ds, none :: vs => encOpts ds vs
  | [], [] => .ok []
  | _, _ => .panic

/-! ## whole message -/

def decode (d : MsgDef) (bs : Bytes) : Outcome MsgVal :=
  match decMan d.man bs with
  | .ok (mv, rest) =>
    match decLoop d.opt rest.length rest (List.replicate d.opt.length none) with
    | .ok ov => .ok ⟨mv, ov⟩
    | .err e => .err e
    | .panic => .panic
  | .err e => .err e
  | .panic => .panic

def encode (d : MsgDef) (m : MsgVal) : Outcome Bytes :=
  match encMan d.man m.man with
  | .ok b =>
    match encOpts d.opt m.opt with
    | .ok bs => .ok (b ++ bs)
    | .err e => .err e
    | .panic => .panic
  | .err e => .err e
  | .panic => .panic

end NasVerif.Codec
