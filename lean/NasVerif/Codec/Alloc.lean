import NasVerif.Codec.Theorems
/-!
# Allocation accounting for the decoders (C01: "memory allocated is bounded by a small linear function of the input length
plus one maximum-size information element")

What the generated decoders allocate: `SetLen` does `make([]uint8, Len)` *after* the length guard and *before* the content is
read (so a declared 65 535 with nothing behind it still allocates 64 KiB once, then the decoder stops with an error), and every
optional element met allocates its struct (`NewX(iei)`, `size` octets as reported by the translator). `allocDecode` adds these
up along the decoder's own control flow; the theorem bounds it for every table and every input.
-/
namespace NasVerif.Codec
open NasVerif

/-- octets requested by `SetLen`'s `make` while decoding this element from `bs` -/
def makeBytes (s : Slot) (bs : Bytes) : Nat :=
  match readLen s.lenSize bs with
  | none => 0
  | some (len, _) =>
    if s.guard.ok len && s.alloc then (match s.store with | .buf => len | _ => 0) else 0

def allocMan : List Slot → Bytes → Nat
  | [], _ => 0
  | s :: ss, bs => makeBytes s bs + (match decBody s 0 bs with | .ok (_, rest) => allocMan ss rest | _ => 0)

def allocOpt (d : OptSlot) (rest : Bytes) : Nat := d.slot.size + (if d.half then 0 else makeBytes d.slot rest)

def allocLoop (defs : List OptSlot) : Nat → Bytes → Nat
  | 0, _ => 0
  | _, [] => 0
  | fuel+1, b :: rest =>
    match findSlot defs (tmpIei b) 0 with
    | none => allocLoop defs fuel rest
    | some (_, d) => allocOpt d rest + (match decOpt d b rest with | .ok (_, rest') => allocLoop defs fuel rest' | _ => 0)

def allocDecode (d : MsgDef) (bs : Bytes) : Nat :=
  allocMan d.man bs + (match decMan d.man bs with | .ok (_, rest) => allocLoop d.opt rest.length rest | _ => 0)

theorem makeBytes_le (s : Slot) (bs : Bytes) : makeBytes s bs ≤ 65535 := by
  unfold makeBytes
  cases hr : readLen s.lenSize bs with
  | none => simp
  | some p =>
    obtain ⟨len, bs1⟩ := p
    obtain ⟨hk, hn, _⟩ := readLen_some _ _ _ _ hr
    have hlim : len < 65536 := by
      have h2 : s.lenSize = 0 ∨ s.lenSize = 1 ∨ s.lenSize = 2 := by omega
      rcases h2 with h | h | h <;> rw [h] at hn <;> simp [lenLimit] at hn <;> omega
    simp only []
    split
    · split <;> omega
    · omega

/-- what `make` requested for an element that decoded was consumed from the input -/
theorem makeBytes_consumed (s : Slot) (iei : UInt8) (bs : Bytes) (v : IEVal) (rest : Bytes)
    (h : decBody s iei bs = .ok (v, rest)) : makeBytes s bs + rest.length ≤ bs.length := by
  have hlen := decBody_length s iei bs v rest h
  unfold makeBytes
  unfold decBody at h
  cases hr : readLen s.lenSize bs with
  | none => rw [hr] at h; simp at h
  | some p =>
    obtain ⟨len, bs1⟩ := p
    rw [hr] at h
    obtain ⟨_, _, hbs⟩ := readLen_some _ _ _ _ hr
    simp only [] at h ⊢
    by_cases hg : s.guard.ok len
    · simp only [hg, Bool.not_true, Bool.false_eq_true, if_false] at h
      by_cases ha : s.alloc
      · simp only [hg, ha, Bool.and_self, if_true]
        cases hst : s.store with
        | buf =>
          simp only []
          unfold decContent at h
          simp only [hst, ha, if_true] at h
          by_cases hl : bs1.length < len
          · simp [hl] at h
          · simp only [hl, if_false, Outcome.ok.injEq, Prod.mk.injEq] at h
            obtain ⟨_, rfl⟩ := h
            rw [hbs]
            simp
            omega
        | octet => simpa using hlen
        | arr n => simpa using hlen
        | unit => simpa using hlen
      · simp only [ha, Bool.and_false, Bool.false_eq_true, if_false]; simpa using hlen
    · simp [hg] at h

theorem allocMan_ok (ss : List Slot) (bs : Bytes) (vs : List IEVal) (rest : Bytes) (h : decMan ss bs = .ok (vs, rest)) :
    allocMan ss bs + rest.length ≤ bs.length := by
  induction ss generalizing bs vs with
  | nil => simp [decMan] at h; obtain ⟨_, rfl⟩ := h; simp [allocMan]
  | cons s ss ih =>
    unfold decMan at h
    cases hb : decBody s 0 bs with
    | ok p =>
      obtain ⟨v, r1⟩ := p
      rw [hb] at h
      simp only [] at h
      cases hm : decMan ss r1 with
      | ok q =>
        obtain ⟨vs', r2⟩ := q
        rw [hm] at h
        simp only [Outcome.ok.injEq, Prod.mk.injEq] at h
        obtain ⟨_, rfl⟩ := h
        have h1 := makeBytes_consumed s 0 bs v r1 hb
        have h2 := ih r1 vs' hm
        simp only [allocMan, hb]
        omega
      | err e => rw [hm] at h; simp at h
      | panic => rw [hm] at h; simp at h
    | err e => rw [hb] at h; simp at h
    | panic => rw [hb] at h; simp at h

theorem allocMan_le (ss : List Slot) (bs : Bytes) : allocMan ss bs ≤ bs.length + 65535 := by
  induction ss generalizing bs with
  | nil => simp [allocMan]
  | cons s ss ih =>
    simp only [allocMan]
    have hm := makeBytes_le s bs
    cases hb : decBody s 0 bs with
    | ok p =>
      obtain ⟨v, r1⟩ := p
      have h1 := makeBytes_consumed s 0 bs v r1 hb
      have h2 := ih r1
      simp only []
      omega
    | err e => simp only []; omega
    | panic => simp only []; omega

theorem allocLoop_le (defs : List OptSlot) (K : Nat) (hK : ∀ d ∈ defs, d.slot.size ≤ K) (fuel : Nat) (bs : Bytes) :
    allocLoop defs fuel bs ≤ (K + 1) * bs.length + 65535 := by
  induction fuel generalizing bs with
  | zero => simp [allocLoop]
  | succ n ih =>
    cases bs with
    | nil => simp [allocLoop]
    | cons b rest =>
      simp only [allocLoop, List.length_cons]
      cases hf : findSlot defs (tmpIei b) 0 with
      | none =>
        simp only []
        have := ih rest
        have hmono : (K + 1) * rest.length ≤ (K + 1) * (rest.length + 1) := Nat.mul_le_mul_left _ (by omega)
        omega
      | some p =>
        obtain ⟨i, d⟩ := p
        simp only []
        obtain ⟨_, hget, _⟩ := findSlot_sound defs _ 0 i d hf
        have hd : d.slot.size ≤ K := hK d (List.mem_of_getElem? hget)
        have hexp : (K + 1) * (rest.length + 1) = (K + 1) * rest.length + K + 1 := by
          rw [Nat.mul_add, Nat.mul_one]; omega
        have hmk : (if d.half then 0 else makeBytes d.slot rest) ≤ 65535 := by
          split
          · omega
          · exact makeBytes_le _ _
        unfold allocOpt
        cases ho : decOpt d b rest with
        | ok q =>
          obtain ⟨v, r'⟩ := q
          simp only []
          have h2 := ih r'
          have hcons : (if d.half then 0 else makeBytes d.slot rest) + r'.length ≤ rest.length := by
            unfold decOpt at ho
            by_cases hh : d.half
            · simp only [hh, if_true, Outcome.ok.injEq, Prod.mk.injEq] at ho ⊢
              obtain ⟨_, rfl⟩ := ho; omega
            · simp only [hh, Bool.false_eq_true, if_false] at ho ⊢
              exact makeBytes_consumed _ _ _ _ _ ho
          generalize (if d.half then 0 else makeBytes d.slot rest) = mk at *
          have hmul : (K + 1) * r'.length + (K + 1) * mk ≤ (K + 1) * rest.length := by
            rw [← Nat.mul_add]; exact Nat.mul_le_mul_left _ (by omega)
          have hmk1 : mk ≤ (K + 1) * mk := by
            rw [Nat.add_mul, Nat.one_mul]; omega
          omega
        | err e => simp only []; omega
        | panic => simp only []; omega

/-- the largest struct among the optional elements of a message -/
def maxOptSize (d : MsgDef) : Nat := (d.opt.map (·.slot.size)).foldl Nat.max 0

theorem maxOptSize_ge (d : MsgDef) (x : OptSlot) (hx : x ∈ d.opt) : x.slot.size ≤ maxOptSize d :=
  foldl_max_ge _ 0 _ (Or.inl (List.mem_map.mpr ⟨x, hx, rfl⟩))

/-- C01, allocation: for every message table and every input, the octets requested by the decoder (buffers and optional-element
structs) are at most `(1 + largest optional struct) · |input|` plus one maximum-size element -/
theorem allocDecode_le (d : MsgDef) (bs : Bytes) : allocDecode d bs ≤ (maxOptSize d + 1) * bs.length + 65535 := by
  unfold allocDecode
  cases hm : decMan d.man bs with
  | ok p =>
    obtain ⟨vs, rest⟩ := p
    simp only []
    have h1 := allocMan_ok d.man bs vs rest hm
    have h2 := allocLoop_le d.opt (maxOptSize d) (maxOptSize_ge d) rest.length rest
    have hle : rest.length ≤ bs.length := by omega
    have hmul : (maxOptSize d + 1) * rest.length + (maxOptSize d + 1) * allocMan d.man bs ≤ (maxOptSize d + 1) * bs.length := by
      rw [← Nat.mul_add]; exact Nat.mul_le_mul_left _ (by omega)
    have hone : allocMan d.man bs ≤ (maxOptSize d + 1) * allocMan d.man bs := by
      rw [Nat.add_mul, Nat.one_mul]; omega
    omega
  | err e =>
    simp only []
    have := allocMan_le d.man bs
    have hone : bs.length ≤ (maxOptSize d + 1) * bs.length := by rw [Nat.add_mul, Nat.one_mul]; omega
    omega
  | panic =>
    simp only []
    have := allocMan_le d.man bs
    have hone : bs.length ≤ (maxOptSize d + 1) * bs.length := by rw [Nat.add_mul, Nat.one_mul]; omega
    omega

end NasVerif.Codec
