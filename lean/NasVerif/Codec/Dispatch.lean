import NasVerif.Codec.Defs
/-!
# Encoder view of a table, message registry, and the dispatching entry points of `nas.go` /
`nas_generated.go` (`PlainNasDecode`, `GmmMessageDecode`, `GsmMessageDecode`, `PlainNasEncode`, …).
-/
namespace NasVerif.Codec
open NasVerif

/-- what an `Encode*` function does for one element, as extracted from its statements -/
structure EncSlot where
  writesIei : Bool
  lenSize   : Nat
  store     : Store
  span      : Span
deriving DecidableEq, Repr, Inhabited

structure EncDef where
  man : List EncSlot
  opt : List EncSlot
deriving DecidableEq, Repr, Inhabited

def Slot.encView (s : Slot) : EncSlot := ⟨false, s.lenSize, s.store, s.span⟩

def OptSlot.encView (d : OptSlot) : EncSlot :=
  if d.half then ⟨false, 0, .octet, .all⟩ else ⟨d.hasIei, d.slot.lenSize, d.slot.store, d.slot.span⟩

/-- the encoder that `Codec.encode` implements for a decoder table -/
def MsgDef.encView (d : MsgDef) : EncDef := ⟨d.man.map Slot.encView, d.opt.map OptSlot.encView⟩

structure MsgEntry where
  name     : String
  dec      : MsgDef
  enc      : EncDef
  decNames : List String
  encNames : List String
  fields   : List String
  size     : Nat
deriving Repr, Inhabited

/-- encoder and decoder of a message describe the same table, in the same order, over the struct's fields -/
def MsgEntry.compat (e : MsgEntry) : Bool :=
  decide (e.enc = e.dec.encView) && decide (e.encNames = e.decNames) &&
  decide (e.fields = e.decNames.take e.dec.man.length ++ (e.decNames.drop e.dec.man.length).map ("*" ++ ·))

structure Dispatch where
  headerLen : Nat
  typeIndex : Nat
  decode    : List (Nat × String)
  encode    : List (Nat × String)
deriving Repr, Inhabited

def findMsg : List MsgEntry → String → Option MsgEntry
  | [], _ => none
  | e :: es, n => if e.name = n then some e else findMsg es n

/-- first `case` whose constant equals the message type octet -/
def lookupType : List (Nat × String) → Nat → Option String
  | [], _ => none
  | (c, n) :: r, t => if c = t then some n else lookupType r t

/-- a 5GMM or 5GSM message as held in `nas.Message`: the header view and the populated bodies -/
structure Family where
  header : Bytes
  bodies : List (String × MsgVal)
deriving DecidableEq, Repr, Inhabited

structure NasMsg where
  gmm : Option Family
  gsm : Option Family
deriving DecidableEq, Repr, Inhabited

/-- `GmmMessageDecode` / `GsmMessageDecode`: read the header, switch on the message type, construct that
one body and run its decoder on the whole input -/
def famDecode (msgs : List MsgEntry) (dp : Dispatch) (bs : Bytes) : Outcome Family :=
  if bs.length < dp.headerLen then .err .trunc
  else
    let hdr := bs.take dp.headerLen
    match lookupType dp.decode (hdr.getD dp.typeIndex 0).toNat with
    | none => .err .unknown
    | some name =>
      match findMsg msgs name with
      | none => .err .other
      | some e =>
        match decode e.dec bs with
        | .ok v => .ok ⟨hdr, [(name, v)]⟩
        | .err er => .err er
        | .panic => .panic

structure Top where
  msgs   : List MsgEntry
  gmm    : Dispatch
  gsm    : Dispatch
  epdGmm : Nat
  epdGsm : Nat

/-- `PlainNasDecode` on a fresh `Message`; `none` = nil pointer -/
def plainDecode (t : Top) (inp : Option Bytes) : Outcome NasMsg :=
  match inp with
  | none => .err .empty
  | some [] => .err .empty
  | some (b :: rest) =>
    if b.toNat = t.epdGmm then
      match famDecode t.msgs t.gmm (b :: rest) with
      | .ok f => .ok ⟨some f, none⟩
      | .err e => .err e
      | .panic => .panic
    else if b.toNat = t.epdGsm then
      match famDecode t.msgs t.gsm (b :: rest) with
      | .ok f => .ok ⟨none, some f⟩
      | .err e => .err e
      | .panic => .panic
    else .err .unknown

/-- `GmmMessageEncode` / `GsmMessageEncode`: a known type whose body pointer is nil dereferences nil (panic) -/
def famEncode (msgs : List MsgEntry) (dp : Dispatch) (f : Family) : Outcome Bytes :=
  match lookupType dp.encode (f.header.getD dp.typeIndex 0).toNat with
  | none => .err .unknown
  | some name =>
    match f.bodies.lookup name with
    | none => .panic
    | some v =>
      match findMsg msgs name with
      | none => .err .other
      | some e => encode e.dec v

def plainEncode (t : Top) (m : NasMsg) : Outcome Bytes :=
  match m.gmm with
  | some f => famEncode t.msgs t.gmm f
  | none =>
    match m.gsm with
    | some f => famEncode t.msgs t.gsm f
    | none => .err .empty

end NasVerif.Codec
