import NasVerif.Codec.Theorems
import NasVerif.Spec.Msg
/-!
# The extracted tables, read in TS 24.501 vocabulary, and agreement of `Codec.encode` / `Codec.decode` with the
independent `Spec.render` / `Spec.decode` (C04)
-/
namespace NasVerif.Codec
open NasVerif

def Slot.fixed (s : Slot) : Nat :=
  match s.store with
  | .octet => 1
  | .arr n => n
  | .buf => 0
  | .unit => 0

def Slot.lens (s : Slot) : Spec.Lens :=
  if s.lenSize = 0 then .range s.fixed s.fixed
  else match s.guard with
    | .none => .range 0 (lenLimit s.lenSize - 1)
    | .range lo hi => .range lo hi
    | .min lo => .range lo (lenLimit s.lenSize - 1)
    | .max hi => .range 0 hi
    | .exact n => .range n n
    | .oneOf l => .oneOf l

def Slot.toIE (s : Slot) : Spec.IE :=
  ⟨(match s.lenSize with | 0 => .V | 1 => .LV | _ => .LVE), 0, s.lens⟩

def OptSlot.toIE (d : OptSlot) : Spec.IE :=
  ⟨(if d.half then .TV1 else match d.slot.lenSize with | 0 => .TV | 1 => .TLV | _ => .TLVE), d.iei, d.slot.lens⟩

def MsgDef.toSpec (d : MsgDef) : Spec.Msg := ⟨d.man.map Slot.toIE, d.opt.map OptSlot.toIE⟩

/-- the storage class realises the format: a lengthed scalar/array has exactly its own size as the only legal length,
buffers are allocated to the declared length, unlengthed elements have no guard -/
def Slot.specOK (s : Slot) : Bool :=
  s.wf &&
  (match s.lenSize, s.store, s.span with
   | 0, .buf, _ => false
   | 0, _, .all => decide (s.guard = .none)
   | 0, _, .toLen => false
   | _, .octet, _ => decide (s.guard = .exact 1)
   | _, .arr n, .all => decide (s.guard = .exact n)
   | _, .arr _, .toLen => true
   | _, .buf, _ => s.alloc
   | _, .unit, _ => false)

def OptSlot.specOK (d : OptSlot) : Bool :=
  d.wf && (d.half || d.slot.specOK) &&
  (!d.half || (decide (d.slot.lenSize = 0) && decide (d.slot.store = .octet) && decide (d.slot.span = .all)))

def MsgDef.specOK (d : MsgDef) : Bool := d.wf && d.man.all Slot.specOK && d.opt.all OptSlot.specOK

def toSVal (s : Slot) (v : IEVal) : Spec.Val :=
  ⟨v.iei, v.len, match s.span with | .toLen => v.data.take v.len | .all => v.data⟩

def toSVals : List Slot → List IEVal → List Spec.Val
  | s :: ss, v :: vs => toSVal s v :: toSVals ss vs
  | _, _ => []

def toSOpts : List OptSlot → Slots → List (Option Spec.Val)
  | d :: ds, v :: vs => v.map (toSVal d.slot) :: toSOpts ds vs
  | _, _ => []

def toMVal (d : MsgDef) (m : MsgVal) : Spec.MVal := ⟨toSVals d.man m.man, toSOpts d.opt m.opt⟩

/-! ## encoder = renderer -/

theorem lenBytes_eq (k n : Nat) : lenBytes k n =
    (match k with | 0 => [] | 1 => Spec.len1 n | _ => Spec.len2 n) := by
  match k with
  | 0 => rfl
  | 1 => rfl
  | k+2 => rfl

theorem encBody_render (s : Slot) (hs : s.specOK = true) (v : IEVal) (hv : ValOK s v) :
    encBody s v = .ok (Spec.renderIE s.toIE (toSVal s v)) := by
  obtain ⟨_, _, hshape⟩ := hv
  unfold Slot.specOK Slot.wf at hs
  unfold encBody encContent Spec.renderIE Slot.toIE toSVal
  rw [lenBytes_eq]
  cases hst : s.store <;> cases hsp : s.span <;> rcases hl : s.lenSize with _ | _ | k <;>
    simp [hst, hsp, hl] at hs hshape ⊢
  all_goals (try omega)
  all_goals
    rename_i n
    have hlt : ¬ (n < v.len) := by omega
    simp [hlt]

theorem renderIE_opt (d : OptSlot) (hh : d.half = false) (v : Spec.Val) :
    Spec.renderIE d.toIE v = [v.iei] ++ Spec.renderIE d.slot.toIE v := by
  unfold OptSlot.toIE Slot.toIE Spec.renderIE
  rcases hl : d.slot.lenSize with _ | _ | k <;> simp [hh]

theorem encOne_render (d : OptSlot) (hd : d.specOK = true) (v : IEVal) (hv : OptValOK d v) :
    encOne d v = .ok (Spec.renderIE d.toIE (toSVal d.slot v)) := by
  unfold OptSlot.specOK OptSlot.wf at hd
  unfold OptValOK at hv
  unfold encOne
  by_cases hh : d.half = true
  · simp [hh] at hd hv ⊢
    simp [OptSlot.toIE, hh, Spec.renderIE, toSVal, hd.2.2]
  · have hh' : d.half = false := by simpa using hh
    simp [hh'] at hd hv
    rw [renderIE_opt d hh', encBody_render d.slot hd.2 v hv.2]
    simp [hh', hd.1.1.2, toSVal]

theorem encMan_render (ss : List Slot) (hs : ss.all Slot.specOK = true) (vs : List IEVal) (hv : WFMan ss vs) :
    encMan ss vs = .ok (Spec.renderMan (ss.map Slot.toIE) (toSVals ss vs)) := by
  induction ss generalizing vs with
  | nil => cases vs <;> simp_all [WFMan, encMan, Spec.renderMan, toSVals]
  | cons s ss ih =>
    cases vs with
    | nil => simp [WFMan] at hv
    | cons v vs =>
      simp [WFMan] at hv
      simp at hs
      simp [encMan, encBody_render s hs.1 v hv.1.2, ih (by simpa using hs.2) vs hv.2, Spec.renderMan, toSVals]

theorem encOpts_render (ds : List OptSlot) (hs : ds.all OptSlot.specOK = true) (vs : Slots) (hv : WFSlots ds vs) :
    encOpts ds vs = .ok (Spec.renderOpt (ds.map OptSlot.toIE) (toSOpts ds vs)) := by
  induction ds generalizing vs with
  | nil => cases vs <;> simp_all [WFSlots, encOpts, Spec.renderOpt, toSOpts]
  | cons d ds ih =>
    cases vs with
    | nil => simp [WFSlots] at hv
    | cons v vs =>
      simp [WFSlots] at hv
      simp at hs
      cases v with
      | none => simp [encOpts, ih (by simpa using hs.2) vs hv.2, Spec.renderOpt, toSOpts]
      | some x =>
        simp [encOpts, encOne_render d hs.1 x (hv.1 x rfl), ih (by simpa using hs.2) vs hv.2, Spec.renderOpt, toSOpts]

/-- C04 (encoder): the encoder emits exactly the TS 24.007 rendering of the message over its table -/
theorem encode_layout (d : MsgDef) (hd : d.specOK = true) (m : MsgVal) (hm : WFVal d m) :
    encode d m = .ok (Spec.render d.toSpec (toMVal d m)) := by
  unfold MsgDef.specOK at hd
  simp only [Bool.and_eq_true] at hd
  simp [encode, encMan_render d.man hd.1.2 m.man hm.1, encOpts_render d.opt hd.2 m.opt hm.2, Spec.render,
    MsgDef.toSpec, toMVal]

/-! ## decoder = table-driven decoder -/

/-- view of a codec outcome as the spec decoder's result -/
def bodyView (s : Slot) : Outcome (IEVal × Bytes) → Option (Nat × Bytes × Bytes)
  | .ok (v, r) => some (v.len, (toSVal s v).value, r)
  | _ => none

theorem readLen_zero (bs : Bytes) : readLen 0 bs = some (0, bs) := rfl

theorem lens_ok_agree (s : Slot) (hl : s.lenSize ≠ 0) (n : Nat) (hn : n < lenLimit s.lenSize) :
    s.lens.ok n = s.guard.ok n := by
  unfold Slot.lens
  simp only [hl, if_false]
  cases s.guard <;> simp [Spec.Lens.ok, Guard.ok]
  · omega
  · omega
  · rename_i k
    by_cases h : n = k
    · simp [h]
    · have e : (n == k) = false := by simpa using h
      rw [e]
      by_cases h1 : k ≤ n <;> by_cases h2 : n ≤ k <;> simp [h1, h2]
      omega

/-- once a legal length has been read, the content read is "take that many octets" -/
theorem decContent_agree (s : Slot) (hs : s.specOK = true) (hl : s.lenSize ≠ 0) (iei : UInt8) (len : Nat)
    (hg : s.guard.ok len = true) (bs1 : Bytes) :
    (Spec.takeN len bs1).map (fun (v, r) => (len, v, r)) = bodyView s (decContent s iei len bs1) := by
  unfold Slot.specOK Slot.wf at hs
  unfold decContent bodyView toSVal Spec.takeN
  rcases hls : s.lenSize with _ | k
  · exact absurd hls hl
  · cases hst : s.store <;> cases hsp : s.span <;> simp [hst, hsp, hls] at hs ⊢
    · -- octet: the only legal length is 1
      have h1 : len = 1 := by rw [hs.2] at hg; simpa [Guard.ok] using hg
      subst h1
      cases bs1 with
      | nil => simp
      | cons b r => simp
    · -- array read whole: the only legal length is its size
      rename_i n
      have h1 : len = n := by rw [hs.2] at hg; simpa [Guard.ok] using hg
      subst h1
      split <;> simp [*]
    · -- array read up to Len
      rename_i n
      have hle : len ≤ n := by
        cases hh : s.guard.hi with
        | none => simp [hh] at hs
        | some h => simp [hh] at hs; exact Nat.le_trans (Guard.le_hi _ _ _ hg hh) hs.2
      have : ¬ n < len := by omega
      simp only [this, if_false]
      split
      · simp
      · rename_i hlen
        have hmin : min len bs1.length = len := by omega
        simp [hmin]
    · -- buffer
      simp [hs.2]
      split <;> simp [*]

theorem decValue_agree (s : Slot) (hs : s.specOK = true) (iei : UInt8) (bs : Bytes) :
    Spec.decValue s.toIE bs = bodyView s (decBody s iei bs) := by
  have hs0 := hs
  unfold Slot.specOK Slot.wf at hs
  rcases hl : s.lenSize with _ | _ | k
  · -- no length octets
    unfold Spec.decValue Slot.toIE Slot.lens Slot.fixed decBody decContent bodyView toSVal
    cases hst : s.store <;> cases hsp : s.span <;> simp [hst, hsp, hl] at hs ⊢
    all_goals (simp [readLen, hs, Guard.ok, Spec.fixedSize, Spec.takeN])
    · cases bs <;> simp
    · split <;> simp [*]
  · -- one length octet
    cases bs with
    | nil => simp [Spec.decValue, Slot.toIE, hl, decBody, readLen, bodyView]
    | cons l r =>
      have hlim : l.toNat < lenLimit s.lenSize := by rw [hl]; simpa [lenLimit] using l.toNat_lt
      have hag := lens_ok_agree s (by omega) l.toNat hlim
      unfold Spec.decValue Slot.toIE decBody
      simp only [hl, readLen, hag]
      cases hg : s.guard.ok l.toNat
      · simp [bodyView]
      · simp only [Bool.not_true, Bool.false_eq_true, if_false, if_true]
        exact decContent_agree s hs0 (by omega) iei l.toNat hg r
  · -- two length octets
    match bs with
    | [] => simp [Spec.decValue, Slot.toIE, hl, decBody, readLen, bodyView]
    | [_] => simp [Spec.decValue, Slot.toIE, hl, decBody, readLen, bodyView]
    | h :: l :: r =>
      have hk : s.lenSize ≤ 2 := by simp at hs; exact hs.1.1
      have hk2 : k = 0 := by omega
      subst hk2
      have hlim : h.toNat * 256 + l.toNat < lenLimit s.lenSize := by
        rw [hl]; have := h.toNat_lt; have := l.toNat_lt; simp [lenLimit]; omega
      have hag := lens_ok_agree s (by omega) _ hlim
      unfold Spec.decValue Slot.toIE decBody
      simp only [hl, readLen, hag]
      cases hg : s.guard.ok (h.toNat * 256 + l.toNat)
      · simp [bodyView]
      · simp only [Bool.not_true, Bool.false_eq_true, if_false, if_true]
        exact decContent_agree s hs0 (by omega) iei _ hg r

theorem decMan_agree (ss : List Slot) (hs : ss.all Slot.specOK = true) (bs : Bytes) :
    Spec.decMan (ss.map Slot.toIE) bs =
      (match decMan ss bs with | .ok (vs, r) => some (toSVals ss vs, r) | _ => none) := by
  induction ss generalizing bs with
  | nil => simp [Spec.decMan, decMan, toSVals]
  | cons s ss ih =>
    simp at hs
    simp only [List.map_cons, Spec.decMan, decMan, decValue_agree s hs.1 0 bs]
    cases hb : decBody s 0 bs with
    | ok p =>
      obtain ⟨v, r⟩ := p
      have hi := (decBody_sound s 0 bs v r hb).2.1
      simp only [bodyView, ih (by simpa using hs.2) r]
      cases hm : decMan ss r with
      | ok q => obtain ⟨vs, r'⟩ := q; simp [toSVals, toSVal, hi]
      | err e => simp
      | panic => simp
    | err e => simp [bodyView]
    | panic => simp [bodyView]

theorem lookup_map (defs : List OptSlot) (t k : Nat) :
    Spec.lookup (defs.map OptSlot.toIE) t k = (findSlot defs t k).map (fun p => (p.1, p.2.toIE)) := by
  induction defs generalizing k with
  | nil => simp [Spec.lookup, findSlot]
  | cons d ds ih =>
    simp only [List.map_cons, Spec.lookup, findSlot]
    have : d.toIE.iei = d.iei := by simp [OptSlot.toIE]
    rw [this]
    split
    · simp
    · exact ih (k+1)

theorem decValue_opt (d : OptSlot) (hh : d.half = false) (bs : Bytes) :
    Spec.decValue d.toIE bs = Spec.decValue d.slot.toIE bs := by
  unfold Spec.decValue OptSlot.toIE Slot.toIE
  rcases hl : d.slot.lenSize with _ | _ | k <;> simp [hh]

theorem toSOpts_set : ∀ (defs : List OptSlot) (acc : Slots) (i : Nat) (d : OptSlot) (v : IEVal),
    defs[i]? = some d → acc.length = defs.length →
    toSOpts defs (acc.set i (some v)) = (toSOpts defs acc).set i (some (toSVal d.slot v))
  | [], _, _, _, _, h, _ => by simp at h
  | _ :: _, [], _, _, _, _, hl => by simp at hl
  | d0 :: ds, a :: as, 0, d, v, h, _ => by
    simp at h; subst h; simp [toSOpts]
  | d0 :: ds, a :: as, i+1, d, v, h, hl => by
    simp at h hl
    simp [toSOpts, toSOpts_set ds as i d v h hl]

theorem decOpts_agree (defs : List OptSlot) (hs : defs.all OptSlot.specOK = true) :
    ∀ (fuel : Nat) (bs : Bytes) (acc : Slots), acc.length = defs.length →
      Spec.decOpts (defs.map OptSlot.toIE) fuel bs (toSOpts defs acc) =
        (match decLoop defs fuel bs acc with | .ok out => some (toSOpts defs out) | _ => none) := by
  intro fuel
  induction fuel with
  | zero => intro bs acc _; simp [Spec.decOpts, decLoop]
  | succ fuel ih =>
    intro bs acc hlen
    cases bs with
    | nil => simp [Spec.decOpts, decLoop]
    | cons b rest =>
      simp only [Spec.decOpts, decLoop, lookup_map]
      have ht : Spec.ieiOf b = tmpIei b := rfl
      rw [ht]
      cases hf : findSlot defs (tmpIei b) 0 with
      | none => simp only [Option.map_none]; exact ih rest acc hlen
      | some p =>
        obtain ⟨i, d⟩ := p
        obtain ⟨_, hget, _⟩ := findSlot_sound defs _ 0 i d hf
        simp at hget
        have hd : d.specOK = true := List.all_eq_true.mp hs d (List.mem_of_getElem? hget)
        have hd' := hd
        unfold OptSlot.specOK OptSlot.wf at hd'
        simp only [Option.map_some]
        by_cases hh : d.half = true
        · have hfmt : d.toIE.fmt = .TV1 := by simp [OptSlot.toIE, hh]
          simp [hh] at hd'
          simp only [hfmt, if_true, decOpt, hh]
          have e : (⟨0, 0, [b]⟩ : Spec.Val) = toSVal d.slot ⟨0, 0, [b]⟩ := by simp [toSVal, hd'.2.2]
          rw [e, ← toSOpts_set defs acc i d _ hget hlen]
          exact ih rest _ (by simpa using hlen)
        · have hh' : d.half = false := by simpa using hh
          have hfmt : ¬ d.toIE.fmt = .TV1 := by
            simp only [OptSlot.toIE, hh']
            rcases d.slot.lenSize with _ | _ | k <;> simp
          simp [hh'] at hd'
          simp only [hfmt, if_false, decOpt, hh', decValue_opt d hh', Bool.false_eq_true]
          have hv := decValue_agree d.slot hd'.2 (if d.hasIei = true then b else 0) rest
          cases hb : decBody d.slot (if d.hasIei = true then b else 0) rest with
          | ok q =>
            obtain ⟨v, r⟩ := q
            have hi := (decBody_sound d.slot _ rest v r hb).2.1
            simp only [hd'.1.1.2, if_true] at hi
            rw [hb] at hv
            simp only [bodyView] at hv
            simp only [hv]
            have e : (⟨b, v.len, (toSVal d.slot v).value⟩ : Spec.Val) = toSVal d.slot v := by simp [toSVal, hi]
            rw [e, ← toSOpts_set defs acc i d _ hget hlen]
            exact ih r _ (by simpa using hlen)
          | err e => rw [hb] at hv; simp only [bodyView] at hv; simp [hv]
          | panic => rw [hb] at hv; simp only [bodyView] at hv; simp [hv]

theorem toSOpts_replicate : ∀ (defs : List OptSlot), toSOpts defs (List.replicate defs.length none) = List.replicate defs.length none
  | [] => rfl
  | _ :: ds => by simp [toSOpts, List.replicate_succ, toSOpts_replicate ds]

/-- C04 (decoder): the decoder accepts exactly what the independent table-driven decoder accepts, with the same
field values; everything else is rejected -/
theorem decode_agree (d : MsgDef) (hd : d.specOK = true) (bs : Bytes) :
    Spec.decode d.toSpec bs = (match decode d bs with | .ok m => some (toMVal d m) | _ => none) := by
  unfold MsgDef.specOK at hd
  simp only [Bool.and_eq_true] at hd
  unfold Spec.decode decode MsgDef.toSpec
  simp only [decMan_agree d.man hd.1.2 bs]
  cases hm : decMan d.man bs with
  | ok p =>
    obtain ⟨vs, rest⟩ := p
    simp only [List.length_map]
    have := decOpts_agree d.opt hd.2 rest.length rest (List.replicate d.opt.length none) (by simp)
    rw [toSOpts_replicate] at this
    rw [this]
    cases decLoop d.opt rest.length rest (List.replicate d.opt.length none) <;> simp [toMVal]
  | err e => simp
  | panic => simp

/-- truncated input and out-of-bounds lengths (anything the table-driven decoder does not accept) give an error -/
theorem decode_rejects (d : MsgDef) (hd : d.specOK = true) (bs : Bytes) (h : Spec.decode d.toSpec bs = none) :
    ∃ e, decode d bs = .err e := by
  have hwf : d.wf = true := by unfold MsgDef.specOK at hd; simp only [Bool.and_eq_true] at hd; exact hd.1.1
  have hnp := decode_no_panic d hwf bs
  rw [decode_agree d hd bs] at h
  cases hdec : decode d bs with
  | ok m => simp [hdec] at h
  | err e => exact ⟨e, rfl⟩
  | panic => exact absurd hdec hnp

end NasVerif.Codec
