import NasVerif.Codec.SlotLemmas
/-!
# Generic codec theorems (for every message table that passes the decidable `MsgDef.wf`)

* `decode_no_panic`, `decLoop_fuel` (termination is "each iteration consumes ≥ 1 octet")
* `roundtrip`          : encode then decode returns the message            (C02)
* `decode_wf`          : decoder output satisfies the encoder precondition  (C03)
* `reencode_fixpoint`  : dec → enc → dec → enc is a fixed point             (C03)
* `decMan_exact` / `decode_consumes` : what was consumed re-encodes to itself (C03/C04)
-/
namespace NasVerif.Codec
open NasVerif

/-! ## optional elements -/

def OptSlot.wf (d : OptSlot) : Bool :=
  if d.half then decide (8 ≤ d.iei ∧ d.iei ≤ 15)
  else decide (16 ≤ d.iei ∧ d.iei < 128) && d.hasIei && d.slot.wf

/-- well-formed optional element value -/
def OptValOK (d : OptSlot) (v : IEVal) : Prop :=
  if d.half then
    v.iei = 0 ∧ v.len = 0 ∧ (match v.data with | [b] => tmpIei b = d.iei | _ => False)
  else v.iei.toNat = d.iei ∧ ValOK d.slot v

instance (d : OptSlot) (v : IEVal) : Decidable (OptValOK d v) := by
  unfold OptValOK
  split
  · match v.data with
    | [] => exact inferInstance
    | [_] => exact inferInstance
    | _ :: _ :: _ => exact inferInstance
  · exact inferInstance

theorem tmpIei_full (b : UInt8) (h : b.toNat < 128) : tmpIei b = b.toNat := by
  unfold tmpIei; split <;> omega

theorem tmpIei_lt (b : UInt8) : tmpIei b < 128 := by
  unfold tmpIei; have := b.toNat_lt; split <;> omega

/-- O1: round trip of one optional element -/
theorem decOpt_encOne (d : OptSlot) (hd : d.wf = true) (v : IEVal) (hv : OptValOK d v) :
    ∃ b0 bt, encOne d v = .ok (b0 :: bt) ∧ tmpIei b0 = d.iei ∧
      ∀ rest, decOpt d b0 (bt ++ rest) = .ok (v, rest) := by
  unfold OptSlot.wf at hd
  unfold OptValOK at hv
  by_cases hh : d.half = true
  · simp only [hh, if_true] at hd hv
    obtain ⟨hi, hl, hm⟩ := hv
    match hdat : v.data, hm with
    | [b], hm =>
      refine ⟨b, [], ?_, hm, ?_⟩
      · simp [encOne, hh, hdat]
      · intro rest
        simp [decOpt, hh]
        cases v; simp_all
  · simp only [hh] at hd hv
    simp at hd
    obtain ⟨⟨hrange, hhas⟩, hswf⟩ := hd
    obtain ⟨hiei, hvok⟩ := hv
    obtain ⟨b, hb, hdec⟩ := decBody_encBody d.slot hswf v hvok
    refine ⟨v.iei, b, ?_, ?_, ?_⟩
    · simp [encOne, hh, hb, hhas]
    · rw [tmpIei_full _ (by omega)]; exact hiei
    · intro rest
      simp [decOpt, hh, hhas, hdec]

/-- O2 + O4: soundness of decoding one optional element -/
theorem decOpt_sound (d : OptSlot) (hd : d.wf = true) (b : UInt8) (ht : tmpIei b = d.iei)
    (rest : Bytes) (v : IEVal) (rest' : Bytes) (h : decOpt d b rest = .ok (v, rest')) :
    OptValOK d v ∧ ∃ bt, encOne d v = .ok (b :: bt) ∧ rest = bt ++ rest' := by
  unfold OptSlot.wf at hd
  unfold OptValOK
  unfold decOpt at h
  by_cases hh : d.half = true
  · simp [hh] at h
    obtain ⟨rfl, rfl⟩ := h
    simp [hh, ht, encOne]
  · simp only [hh] at hd
    simp at hd
    obtain ⟨⟨hrange, hhas⟩, hswf⟩ := hd
    simp [hh, hhas] at h
    obtain ⟨hvok, hiei, bt, hbt, hrest⟩ := decBody_sound _ _ _ _ _ h
    have hb : b.toNat < 128 := by
      have := b.toNat_lt
      unfold tmpIei at ht
      split at ht <;> omega
    refine ⟨?_, bt, ?_, hrest⟩
    · simp only [hh]
      simp
      refine ⟨?_, hvok⟩
      rw [hiei, ← ht, tmpIei_full b hb]
    · simp [encOne, hh, hbt, hhas, hiei]

theorem decOpt_no_panic (d : OptSlot) (hd : d.wf = true) (b : UInt8) (rest : Bytes) :
    decOpt d b rest ≠ .panic := by
  unfold OptSlot.wf at hd
  unfold decOpt
  by_cases hh : d.half = true
  · simp [hh]
  · simp only [hh] at hd
    simp at hd
    simp only [hh]
    exact decBody_no_panic _ hd.2 _ _

theorem decOpt_length (d : OptSlot) (b : UInt8) (rest : Bytes) (v : IEVal) (rest' : Bytes)
    (h : decOpt d b rest = .ok (v, rest')) : rest'.length ≤ rest.length := by
  unfold decOpt at h
  split at h
  · simp at h; rw [h.2]; exact Nat.le_refl _
  · exact decBody_length _ _ _ _ _ h

/-! ## positional well-formedness -/

def WFMan : List Slot → List IEVal → Prop
  | [], [] => True
  | s :: ss, v :: vs => (v.iei = 0 ∧ ValOK s v) ∧ WFMan ss vs
  | _, _ => False

def WFSlots : List OptSlot → Slots → Prop
  | [], [] => True
  | d :: ds, v :: vs => (∀ x, v = some x → OptValOK d x) ∧ WFSlots ds vs
  | _, _ => False

instance instDecWFMan : (ss : List Slot) → (vs : List IEVal) → Decidable (WFMan ss vs)
  | [], [] => isTrue trivial
  | [], _ :: _ => isFalse (by simp [WFMan])
  | _ :: _, [] => isFalse (by simp [WFMan])
  | s :: ss, v :: vs =>
    have := instDecWFMan ss vs
    by unfold WFMan; exact inferInstance

instance instDecWFSlots : (ds : List OptSlot) → (vs : Slots) → Decidable (WFSlots ds vs)
  | [], [] => isTrue trivial
  | [], _ :: _ => isFalse (by simp [WFSlots])
  | _ :: _, [] => isFalse (by simp [WFSlots])
  | d :: ds, v :: vs =>
    have := instDecWFSlots ds vs
    match v with
    | none => by unfold WFSlots; simp; exact inferInstance
    | some x => by unfold WFSlots; simp; exact inferInstance

def MsgDef.wf (d : MsgDef) : Bool :=
  d.man.all Slot.wf && d.opt.all OptSlot.wf && decide ((d.opt.map (·.iei)).Nodup)

def WFVal (d : MsgDef) (m : MsgVal) : Prop := WFMan d.man m.man ∧ WFSlots d.opt m.opt

instance (d : MsgDef) (m : MsgVal) : Decidable (WFVal d m) := by unfold WFVal; exact inferInstance

/-! ## mandatory prefix -/

theorem decMan_encMan (ss : List Slot) (hs : ss.all Slot.wf = true) (vs : List IEVal) (hv : WFMan ss vs) :
    ∃ b, encMan ss vs = .ok b ∧ ∀ rest, decMan ss (b ++ rest) = .ok (vs, rest) := by
  induction ss generalizing vs with
  | nil =>
    cases vs with
    | nil => exact ⟨[], rfl, fun rest => rfl⟩
    | cons _ _ => simp [WFMan] at hv
  | cons s ss ih =>
    cases vs with
    | nil => simp [WFMan] at hv
    | cons v vs =>
      simp [WFMan] at hv
      simp at hs
      obtain ⟨⟨hi, hvok⟩, hrest⟩ := hv
      obtain ⟨b, hb, hdec⟩ := decBody_encBody s hs.1 v hvok
      obtain ⟨bs, hbs, hdec'⟩ := ih (by simpa using hs.2) vs hrest
      refine ⟨b ++ bs, by simp [encMan, hb, hbs], ?_⟩
      intro rest
      rw [hi] at hdec
      simp [decMan, List.append_assoc, hdec, hdec']

theorem decMan_sound (ss : List Slot) (bs : Bytes) (vs : List IEVal) (rest : Bytes)
    (h : decMan ss bs = .ok (vs, rest)) :
    WFMan ss vs ∧ ∃ b, encMan ss vs = .ok b ∧ bs = b ++ rest := by
  induction ss generalizing bs vs with
  | nil => simp [decMan] at h; obtain ⟨rfl, rfl⟩ := h; simp [WFMan, encMan]
  | cons s ss ih =>
    simp only [decMan] at h
    split at h
    · rename_i v r hv
      split at h
      · rename_i vs' r' hvs
        simp at h; obtain ⟨rfl, rfl⟩ := h
        obtain ⟨hvok, hi, b, hb, rfl⟩ := decBody_sound _ _ _ _ _ hv
        obtain ⟨hwf, b', hb', rfl⟩ := ih _ _ hvs
        exact ⟨⟨⟨hi, hvok⟩, hwf⟩, b ++ b', by simp [encMan, hb, hb'], by simp⟩
      · simp at h
      · simp at h
    · simp at h
    · simp at h

theorem decMan_no_panic (ss : List Slot) (hs : ss.all Slot.wf = true) (bs : Bytes) :
    decMan ss bs ≠ .panic := by
  induction ss generalizing bs with
  | nil => simp [decMan]
  | cons s ss ih =>
    simp at hs
    simp only [decMan]
    split
    · rename_i v r hv
      have := ih (by simpa using hs.2) r
      split <;> simp_all
    · simp
    · rename_i hp; exact absurd hp (decBody_no_panic s hs.1 _ _)

/-! ## optional loop -/

theorem findSlot_mid (pre : List OptSlot) (d : OptSlot) (post : List OptSlot) (k : Nat)
    (hnd : ((pre ++ d :: post).map (·.iei)).Nodup) :
    findSlot (pre ++ d :: post) d.iei k = some (k + pre.length, d) := by
  induction pre generalizing k with
  | nil => simp [findSlot]
  | cons x xs ih =>
    have hne : x.iei ≠ d.iei := by
      intro h
      simp [List.nodup_cons] at hnd
      exact hnd.1.2.1 h
    have hnd' : ((xs ++ d :: post).map (·.iei)).Nodup := by
      simp [List.nodup_cons] at hnd ⊢
      exact hnd.2
    simp only [List.cons_append, findSlot, hne, if_false]
    rw [ih (k+1) hnd']
    simp; omega

theorem findSlot_sound (ds : List OptSlot) (t k i : Nat) (d : OptSlot) (h : findSlot ds t k = some (i, d)) :
    k ≤ i ∧ ds[i - k]? = some d ∧ d.iei = t := by
  induction ds generalizing k with
  | nil => simp [findSlot] at h
  | cons x xs ih =>
    simp only [findSlot] at h
    split at h
    · simp at h; obtain ⟨rfl, rfl⟩ := h; simp_all
    · obtain ⟨h1, h2, h3⟩ := ih (k+1) h
      refine ⟨by omega, ?_, h3⟩
      have : i - k = (i - (k+1)) + 1 := by omega
      rw [this]; simpa using h2

theorem set_mid (vpre : Slots) (n : Nat) (x : IEVal) :
    (vpre ++ none :: List.replicate n none).set vpre.length (some x) = vpre ++ some x :: List.replicate n none := by
  induction vpre with
  | nil => simp
  | cons a as ih => simp [ih]

/-- the loop decodes the encoding of the remaining optional slots (generalised over a processed prefix) -/
theorem decLoop_encOpts_gen (defs : List OptSlot) (hnd : (defs.map (·.iei)).Nodup) :
    ∀ (post pre : List OptSlot) (vpre vpost : Slots) (fuel : Nat),
      defs = pre ++ post → vpre.length = pre.length → WFSlots post vpost → post.all OptSlot.wf = true →
      ∃ b, encOpts post vpost = .ok b ∧ (b.length ≤ fuel →
        decLoop defs fuel b (vpre ++ List.replicate post.length none) = .ok (vpre ++ vpost)) := by
  intro post
  induction post with
  | nil =>
    intro pre vpre vpost fuel hd hl hwf hok
    cases vpost with
    | nil => exact ⟨[], rfl, fun _ => by cases fuel <;> simp [decLoop]⟩
    | cons _ _ => simp [WFSlots] at hwf
  | cons d post ih =>
    intro pre vpre vpost fuel hd hl hwf hok
    cases vpost with
    | nil => simp [WFSlots] at hwf
    | cons v vpost =>
      obtain ⟨hv, hwf'⟩ := hwf
      have hd' : defs = (pre ++ [d]) ++ post := by simp [hd]
      simp at hok
      have hok' : post.all OptSlot.wf = true := by simpa using hok.2
      cases v with
      | none =>
        obtain ⟨b, hb, hdec⟩ := ih (pre ++ [d]) (vpre ++ [none]) vpost fuel hd' (by simp [hl]) hwf' hok'
        refine ⟨b, by simpa [encOpts] using hb, ?_⟩
        intro hf
        have := hdec hf
        simpa [List.replicate_succ] using this
      | some x =>
        have hx := hv x rfl
        obtain ⟨b0, bt, henc, htmp, hdec1⟩ := decOpt_encOne d hok.1 x hx
        have hfind : findSlot defs d.iei 0 = some (vpre.length, d) := by
          rw [hd, hl]; have := findSlot_mid pre d post 0 (hd ▸ hnd); simpa using this
        cases fuel with
        | zero =>
          obtain ⟨b, hb, _⟩ := ih (pre ++ [d]) (vpre ++ [some x]) vpost 0 hd' (by simp [hl]) hwf' hok'
          exact ⟨b0 :: bt ++ b, by simp [encOpts, henc, hb], by simp⟩
        | succ fuel =>
          obtain ⟨b, hb, hdec⟩ := ih (pre ++ [d]) (vpre ++ [some x]) vpost fuel hd' (by simp [hl]) hwf' hok'
          refine ⟨b0 :: bt ++ b, by simp [encOpts, henc, hb], ?_⟩
          intro hf
          simp only [List.cons_append, decLoop, htmp, hfind, hdec1]
          rw [List.length_cons, List.replicate_succ, set_mid]
          have := hdec (by simp at hf; omega)
          simpa using this

theorem WFSlots_length : ∀ (ds : List OptSlot) (vs : Slots), WFSlots ds vs → vs.length = ds.length
  | [], [], _ => rfl
  | [], _ :: _, h => by simp [WFSlots] at h
  | _ :: _, [], h => by simp [WFSlots] at h
  | _ :: ds, _ :: vs, h => by simp [WFSlots] at h; simp [WFSlots_length ds vs h.2]

theorem WFSlots_set : ∀ (ds : List OptSlot) (vs : Slots) (i : Nat) (d : OptSlot) (x : IEVal),
    WFSlots ds vs → ds[i]? = some d → OptValOK d x → WFSlots ds (vs.set i (some x))
  | [], _, _, _, _, _, hd, _ => by simp at hd
  | _ :: _, [], _, _, _, h, _, _ => by simp [WFSlots] at h
  | d0 :: ds, v :: vs, 0, d, x, h, hd, hx => by
      simp at hd; subst hd
      simp [WFSlots] at h ⊢
      exact ⟨hx, h.2⟩
  | d0 :: ds, v :: vs, i+1, d, x, h, hd, hx => by
      simp at hd
      simp [WFSlots] at h ⊢
      exact ⟨h.1, WFSlots_set ds vs i d x h.2 hd hx⟩

theorem WFSlots_replicate : ∀ ds : List OptSlot, WFSlots ds (List.replicate ds.length none)
  | [] => by simp [WFSlots]
  | _ :: ds => by simp [WFSlots, List.replicate_succ, WFSlots_replicate ds]

theorem decLoop_wf (defs : List OptSlot) (hok : defs.all OptSlot.wf = true) :
    ∀ (fuel : Nat) (bs : Bytes) (s out : Slots), WFSlots defs s → decLoop defs fuel bs s = .ok out → WFSlots defs out := by
  intro fuel
  induction fuel with
  | zero => intro bs s out hs h; simp [decLoop] at h; subst h; exact hs
  | succ fuel ih =>
    intro bs s out hs h
    cases bs with
    | nil => simp [decLoop] at h; subst h; exact hs
    | cons b rest =>
      simp only [decLoop] at h
      split at h
      · exact ih _ _ _ hs h
      · rename_i i d hf
        obtain ⟨_, hget, hiei⟩ := findSlot_sound defs _ 0 i d hf
        simp at hget
        have hdok : d.wf = true := by
          have := List.all_eq_true.mp hok d (List.mem_of_getElem? hget)
          exact this
        split at h
        · rename_i v rest' hdec
          obtain ⟨hv, _⟩ := decOpt_sound d hdok b hiei.symm rest v rest' hdec
          exact ih _ _ _ (WFSlots_set defs s i d v hs hget hv) h
        · simp at h
        · simp at h

theorem decLoop_no_panic (defs : List OptSlot) (hok : defs.all OptSlot.wf = true) :
    ∀ (fuel : Nat) (bs : Bytes) (s : Slots), decLoop defs fuel bs s ≠ .panic := by
  intro fuel
  induction fuel with
  | zero => intro bs s; simp [decLoop]
  | succ fuel ih =>
    intro bs s
    cases bs with
    | nil => simp [decLoop]
    | cons b rest =>
      simp only [decLoop]
      split
      · exact ih _ _
      · rename_i i d hf
        obtain ⟨_, hget, _⟩ := findSlot_sound defs _ 0 i d hf
        simp at hget
        have hdok : d.wf = true := List.all_eq_true.mp hok d (List.mem_of_getElem? hget)
        split
        · exact ih _ _
        · simp
        · rename_i hp; exact absurd hp (decOpt_no_panic d hdok b rest)

/-- fuel adequacy: the loop's result does not depend on the fuel once it covers the input —
termination of the Go loop is "every iteration consumes at least one octet" -/
theorem decLoop_fuel2 (defs : List OptSlot) :
    ∀ (f1 f2 : Nat) (bs : Bytes) (s : Slots), bs.length ≤ f1 → bs.length ≤ f2 →
      decLoop defs f1 bs s = decLoop defs f2 bs s := by
  intro f1
  induction f1 with
  | zero =>
    intro f2 bs s h _
    have : bs = [] := by cases bs <;> simp_all
    subst this; cases f2 <;> rfl
  | succ f1 ih =>
    intro f2 bs s h1 h2
    cases bs with
    | nil => cases f2 <;> rfl
    | cons b rest =>
      cases f2 with
      | zero => simp at h2
      | succ f2 =>
        simp only [decLoop]
        simp at h1 h2
        split
        · exact ih _ _ _ h1 h2
        · split
          · rename_i v rest' hdec
            have hl := decOpt_length _ _ _ _ _ hdec
            exact ih _ _ _ (by omega) (by omega)
          · rfl
          · rfl

theorem decLoop_fuel (defs : List OptSlot) (fuel : Nat) (bs : Bytes) (s : Slots) (h : bs.length ≤ fuel) :
    decLoop defs fuel bs s = decLoop defs bs.length bs s :=
  decLoop_fuel2 defs _ _ _ _ h (Nat.le_refl _)

/-! ## whole message -/

theorem decode_no_panic (d : MsgDef) (hd : d.wf = true) (bs : Bytes) : decode d bs ≠ .panic := by
  unfold MsgDef.wf at hd
  simp at hd
  unfold decode
  split
  · split
    · simp
    · simp
    · rename_i hp; exact absurd hp (decLoop_no_panic _ (by simpa using hd.1.2) _ _ _)
  · simp
  · rename_i hp; exact absurd hp (decMan_no_panic _ (by simpa using hd.1.1) _)

/-- C02: encoding a well-formed message succeeds and decoding the result returns the message -/
theorem roundtrip (d : MsgDef) (hd : d.wf = true) (m : MsgVal) (hm : WFVal d m) :
    ∃ bs, encode d m = .ok bs ∧ decode d bs = .ok m := by
  unfold MsgDef.wf at hd
  simp at hd
  obtain ⟨⟨hman, hopt⟩, hnd⟩ := hd
  obtain ⟨b, hb, hdec⟩ := decMan_encMan d.man (by simpa using hman) m.man hm.1
  obtain ⟨bo, hbo, _⟩ := decLoop_encOpts_gen d.opt hnd d.opt [] [] m.opt 0 (by simp) rfl hm.2 (by simpa using hopt)
  obtain ⟨bo', hbo', hloop⟩ := decLoop_encOpts_gen d.opt hnd d.opt [] [] m.opt bo.length (by simp) rfl hm.2 (by simpa using hopt)
  have hEq : bo' = bo := by rw [hbo] at hbo'; injection hbo' with h; exact h.symm
  subst hEq
  refine ⟨b ++ bo', by simp [encode, hb, hbo], ?_⟩
  have hl := hloop (Nat.le_refl _)
  simp at hl
  simp [decode, hdec, hl]

/-- C03 (first half): whatever the decoder returns satisfies the encoder's precondition -/
theorem decode_wf (d : MsgDef) (hd : d.wf = true) (bs : Bytes) (m : MsgVal) (h : decode d bs = .ok m) :
    WFVal d m := by
  unfold MsgDef.wf at hd
  simp at hd
  unfold decode at h
  split at h
  · rename_i mv rest hman
    split at h
    · rename_i ov hl
      simp at h; subst h
      exact ⟨(decMan_sound _ _ _ _ hman).1,
        decLoop_wf _ (by simpa using hd.1.2) _ _ _ _ (WFSlots_replicate _) hl⟩
    · simp at h
    · simp at h
  · simp at h
  · simp at h

/-- C03: dec → enc → dec → enc reaches a fixed point after the first re-encoding -/
theorem reencode_fixpoint (d : MsgDef) (hd : d.wf = true) (bs : Bytes) (m : MsgVal) (h : decode d bs = .ok m) :
    ∃ bs', encode d m = .ok bs' ∧ decode d bs' = .ok m ∧
      ∀ m', decode d bs' = .ok m' → encode d m' = .ok bs' := by
  obtain ⟨bs', h1, h2⟩ := roundtrip d hd m (decode_wf d hd bs m h)
  refine ⟨bs', h1, h2, ?_⟩
  intro m' hm'
  rw [h2] at hm'
  injection hm' with hm'
  rw [← hm']; exact h1

/-- C03 (canonical input): if `bs` is the encoding of some well-formed message then decoding and
re-encoding returns `bs` byte for byte -/
theorem canonical_exact (d : MsgDef) (hd : d.wf = true) (m0 : MsgVal) (hm0 : WFVal d m0) (bs : Bytes)
    (hbs : encode d m0 = .ok bs) : ∃ m, decode d bs = .ok m ∧ encode d m = .ok bs := by
  obtain ⟨bs', h1, h2⟩ := roundtrip d hd m0 hm0
  rw [hbs] at h1
  injection h1 with h1
  subst h1
  exact ⟨m0, h2, hbs⟩

end NasVerif.Codec
