import NasVerif.Codec.Theorems
import NasVerif.Codec.Dispatch
/-!
# Theorems about the dispatching entry points, for every `Top` that passes the decidable `Top.wf`
-/
namespace NasVerif.Codec
open NasVerif

def Slot.isHdr (s : Slot) : Bool := decide (s.lenSize = 0) && decide (s.store = .octet) && decide (s.guard = .none)

def keysNodup (l : List (Nat × String)) : Bool := decide ((l.map (·.1)).Nodup)

/-- a dispatch table is well formed w.r.t. a registry -/
def Dispatch.wf (msgs : List MsgEntry) (dp : Dispatch) : Bool :=
  decide (dp.decode = dp.encode) && keysNodup dp.decode && decide ((dp.decode.map (·.2)).Nodup) &&
  decide (dp.typeIndex < dp.headerLen) && decide (0 < dp.headerLen) &&
  dp.decode.all (fun (_, n) =>
    match findMsg msgs n with
    | some e => decide (dp.headerLen ≤ e.dec.man.length) && (e.dec.man.take dp.headerLen).all Slot.isHdr
    | none => false)

def Top.wf (t : Top) : Bool :=
  t.msgs.all (fun e => e.dec.wf && e.compat) && t.gmm.wf t.msgs && t.gsm.wf t.msgs &&
  decide (t.epdGmm ≠ t.epdGsm) && decide (t.epdGmm < 256) && decide (t.epdGsm < 256)

theorem findMsg_mem (msgs : List MsgEntry) (n : String) (e : MsgEntry) (h : findMsg msgs n = some e) :
    e ∈ msgs ∧ e.name = n := by
  induction msgs with
  | nil => simp [findMsg] at h
  | cons x xs ih =>
    simp only [findMsg] at h
    split at h
    · simp at h; subst h; simp_all
    · have := ih h; exact ⟨List.mem_cons_of_mem _ this.1, this.2⟩

theorem lookupType_mem (l : List (Nat × String)) (t : Nat) (n : String) (h : lookupType l t = some n) :
    (t, n) ∈ l := by
  induction l with
  | nil => simp [lookupType] at h
  | cons x xs ih =>
    obtain ⟨c, m⟩ := x
    simp only [lookupType] at h
    split at h
    · simp at h; subst h; simp_all
    · exact List.mem_cons_of_mem _ (ih h)

theorem lookupType_of_mem (l : List (Nat × String)) (hnd : (l.map (·.1)).Nodup) (t : Nat) (n : String)
    (h : (t, n) ∈ l) : lookupType l t = some n := by
  induction l with
  | nil => simp at h
  | cons x xs ih =>
    obtain ⟨c, m⟩ := x
    simp only [lookupType]
    simp at hnd
    rcases List.mem_cons.mp h with h | h
    · simp at h; simp [h.1, h.2]
    · have hne : c ≠ t := by
        intro hc; subst hc
        exact hnd.1 n h
      simp [hne]; exact ih hnd.2 h

/-- the header octets of a decoded/encoded body: content of the first `k` mandatory elements -/
def hdrOf (k : Nat) (vs : List IEVal) : Bytes := (vs.take k).flatMap (·.data)

theorem encMan_hdr : ∀ (k : Nat) (ss : List Slot) (vs : List IEVal) (b : Bytes),
    (ss.take k).all Slot.isHdr = true → k ≤ ss.length → WFMan ss vs → encMan ss vs = .ok b →
    b.take k = hdrOf k vs ∧ (hdrOf k vs).length = k
  | 0, _, _, _, _, _, _, _ => by simp [hdrOf]
  | k+1, [], _, _, _, hk, _, _ => by simp at hk
  | k+1, s :: ss, [], _, _, _, hw, _ => by simp [WFMan] at hw
  | k+1, s :: ss, v :: vs, b, hh, hk, hw, he => by
    simp [WFMan] at hw
    simp at hh
    simp only [encMan] at he
    obtain ⟨⟨_, hvok⟩, hw'⟩ := hw
    obtain ⟨hs, hh'⟩ := hh
    unfold Slot.isHdr at hs
    simp at hs
    obtain ⟨⟨hl0, hst⟩, _⟩ := hs
    unfold ValOK at hvok
    rw [hst] at hvok
    simp at hvok
    have hb : encBody s v = .ok v.data := by
      simp [encBody, encContent, hst, hl0, lenBytes]
    rw [hb] at he
    simp only at he
    split at he
    · rename_i bs hbs
      simp at he; subst he
      have ih := encMan_hdr k ss vs bs (by simpa using hh') (by simp at hk; omega) hw' hbs
      match hd : v.data, hvok.2.2 with
      | [x], _ =>
        simp [hdrOf, hd]
        simp [hdrOf] at ih
        exact ih
    · simp at he
    · simp at he

structure WFFamily (msgs : List MsgEntry) (dp : Dispatch) (epd : Nat) (f : Family) : Prop where
  one : ∃ name v e, f.bodies = [(name, v)] ∧ findMsg msgs name = some e ∧ WFVal e.dec v ∧
        lookupType dp.decode (f.header.getD dp.typeIndex 0).toNat = some name ∧
        f.header = hdrOf dp.headerLen v.man
  epd : (f.header.getD 0 0).toNat = epd

/-- the property's well-formed message: exactly one family, exactly one body, the body named by the header's
message type, every element well formed, header view = the body's own header octets -/
def WFNas (t : Top) (m : NasMsg) : Prop :=
  (∃ f, m = ⟨some f, none⟩ ∧ WFFamily t.msgs t.gmm t.epdGmm f) ∨
  (∃ f, m = ⟨none, some f⟩ ∧ WFFamily t.msgs t.gsm t.epdGsm f)

theorem dispatch_entry (msgs : List MsgEntry) (dp : Dispatch) (hdp : dp.wf msgs = true) (c : Nat) (n : String)
    (h : (c, n) ∈ dp.decode) (e : MsgEntry) (he : findMsg msgs n = some e) :
    dp.headerLen ≤ e.dec.man.length ∧ (e.dec.man.take dp.headerLen).all Slot.isHdr = true := by
  unfold Dispatch.wf at hdp
  simp only [Bool.and_eq_true] at hdp
  have := List.all_eq_true.mp hdp.2 (c, n) h
  simp only [he] at this
  simpa using this

theorem famDecode_sound (msgs : List MsgEntry) (hm : msgs.all (fun e => e.dec.wf && e.compat) = true)
    (dp : Dispatch) (hdp : dp.wf msgs = true) (bs : Bytes) (f : Family)
    (h : famDecode msgs dp bs = .ok f) :
    (∃ name v e, f.bodies = [(name, v)] ∧ findMsg msgs name = some e ∧ WFVal e.dec v ∧ decode e.dec bs = .ok v ∧
        lookupType dp.decode (f.header.getD dp.typeIndex 0).toNat = some name ∧
        f.header = hdrOf dp.headerLen v.man) ∧ f.header = bs.take dp.headerLen ∧ dp.headerLen ≤ bs.length := by
  unfold famDecode at h
  split at h
  · simp at h
  · rename_i hlen
    simp only at h
    split at h
    · simp at h
    · rename_i name hlk
      split at h
      · simp at h
      · rename_i e hfe
        split at h
        · rename_i v hdec
          simp at h; subst h
          obtain ⟨hemem, _⟩ := findMsg_mem _ _ _ hfe
          have hewf := List.all_eq_true.mp hm e hemem
          simp at hewf
          have hwfv := decode_wf e.dec hewf.1 bs v hdec
          have hmem := lookupType_mem _ _ _ hlk
          obtain ⟨hk, hhdr⟩ := dispatch_entry msgs dp hdp _ _ hmem e hfe
          refine ⟨⟨name, v, e, rfl, hfe, hwfv, hdec, hlk, ?_⟩, rfl, by omega⟩
          -- header = first octets of the body
          unfold decode at hdec
          split at hdec
          · rename_i mv rest hman
            obtain ⟨hwm, b, hb, hbs⟩ := decMan_sound _ _ _ _ hman
            have := encMan_hdr dp.headerLen e.dec.man mv b hhdr hk hwm hb
            have hv : v.man = mv := by
              split at hdec <;> simp at hdec
              rw [← hdec]
            rw [hv, ← this.1, hbs]
            have hbl : dp.headerLen ≤ b.length := by
              have h1 := this.2
              have h2 := congrArg List.length this.1
              simp at h2; omega
            simp [List.take_append_of_le_length hbl]
          · simp at hdec
          · simp at hdec
        · simp at h
        · simp at h

theorem famDecode_no_panic (msgs : List MsgEntry) (hm : msgs.all (fun e => e.dec.wf && e.compat) = true)
    (dp : Dispatch) (bs : Bytes) : famDecode msgs dp bs ≠ .panic := by
  unfold famDecode
  split
  · simp
  · simp only
    split
    · simp
    · split
      · simp
      · rename_i e hfe
        obtain ⟨hemem, _⟩ := findMsg_mem _ _ _ hfe
        have hewf := List.all_eq_true.mp hm e hemem
        simp at hewf
        split
        · simp
        · simp
        · rename_i hp; exact absurd hp (decode_no_panic e.dec hewf.1 bs)

/-- C01 (panic freedom) for `PlainNasDecode` -/
theorem plainDecode_no_panic (t : Top) (ht : t.wf = true) (inp : Option Bytes) : plainDecode t inp ≠ .panic := by
  unfold Top.wf at ht
  simp only [Bool.and_eq_true] at ht
  have hm := ht.1.1.1.1.1
  unfold plainDecode
  split
  · simp
  · simp
  · rename_i b rest
    split
    · have := famDecode_no_panic t.msgs hm t.gmm (b :: rest)
      split <;> simp_all
    · split
      · have := famDecode_no_panic t.msgs hm t.gsm (b :: rest)
        split <;> simp_all
      · simp

/-- C05 (decode side): what a successful `PlainNasDecode` looks like -/
theorem plainDecode_sound (t : Top) (ht : t.wf = true) (inp : Option Bytes) (m : NasMsg)
    (h : plainDecode t inp = .ok m) : WFNas t m := by
  unfold Top.wf at ht
  simp only [Bool.and_eq_true] at ht
  have hm := ht.1.1.1.1.1
  unfold plainDecode at h
  split at h
  · simp at h
  · simp at h
  · rename_i b rest
    split at h
    · rename_i hb
      split at h
      · rename_i f hf
        simp at h; subst h
        obtain ⟨⟨name, v, e, h1, h2, h3, _, h5, h6⟩, hhdr, hl⟩ := famDecode_sound t.msgs hm t.gmm ht.1.1.1.1.2 _ f hf
        left
        refine ⟨f, rfl, ⟨⟨name, v, e, h1, h2, h3, h5, h6⟩, ?_⟩⟩
        have hpos : 0 < t.gmm.headerLen := by
          have := ht.1.1.1.1.2; unfold Dispatch.wf at this; simp only [Bool.and_eq_true] at this
          simpa using this.1.2
        rw [hhdr]
        cases hk : t.gmm.headerLen with
        | zero => omega
        | succ k => simp [hb]
      · simp at h
      · simp at h
    · split at h
      · rename_i hb
        split at h
        · rename_i f hf
          simp at h; subst h
          obtain ⟨⟨name, v, e, h1, h2, h3, _, h5, h6⟩, hhdr, hl⟩ := famDecode_sound t.msgs hm t.gsm ht.1.1.1.2 _ f hf
          right
          refine ⟨f, rfl, ⟨⟨name, v, e, h1, h2, h3, h5, h6⟩, ?_⟩⟩
          have hpos : 0 < t.gsm.headerLen := by
            have := ht.1.1.1.2; unfold Dispatch.wf at this; simp only [Bool.and_eq_true] at this
            simpa using this.1.2
          rw [hhdr]
          cases hk : t.gsm.headerLen with
          | zero => omega
          | succ k => simp [hb]
        · simp at h
        · simp at h
      · simp at h

theorem famRoundtrip (msgs : List MsgEntry) (hm : msgs.all (fun e => e.dec.wf && e.compat) = true)
    (dp : Dispatch) (hdp : dp.wf msgs = true) (epd : Nat) (f : Family) (hf : WFFamily msgs dp epd f) :
    ∃ bs, famEncode msgs dp f = .ok bs ∧ famDecode msgs dp bs = .ok f ∧ (bs.getD 0 0).toNat = epd ∧ bs ≠ [] := by
  obtain ⟨⟨name, v, e, hb, hfe, hwv, hlk, hhdr⟩, hepd⟩ := hf
  obtain ⟨hemem, _⟩ := findMsg_mem _ _ _ hfe
  have hewf := List.all_eq_true.mp hm e hemem
  simp at hewf
  obtain ⟨bs, henc, hdec⟩ := roundtrip e.dec hewf.1 v hwv
  have hmem := lookupType_mem _ _ _ hlk
  obtain ⟨hk, hhs⟩ := dispatch_entry msgs dp hdp _ _ hmem e hfe
  have hdp' := hdp
  unfold Dispatch.wf at hdp'
  simp only [Bool.and_eq_true] at hdp'
  have hde : dp.decode = dp.encode := by simpa using hdp'.1.1.1.1.1
  have hpos : 0 < dp.headerLen := by simpa using hdp'.1.2
  -- the encoding starts with the header
  have hpre : bs.take dp.headerLen = f.header ∧ f.header.length = dp.headerLen := by
    unfold encode at henc
    split at henc
    · rename_i b hbm
      have := encMan_hdr dp.headerLen e.dec.man v.man b hhs hk hwv.1 hbm
      split at henc
      · rename_i bo _
        simp at henc; subst henc
        have hbl : dp.headerLen ≤ b.length := by
          have h2 := congrArg List.length this.1
          simp at h2; omega
        rw [List.take_append_of_le_length hbl, hhdr]
        exact this
      · simp at henc
      · simp at henc
    · simp at henc
    · simp at henc
  have hlen : dp.headerLen ≤ bs.length := by
    have := congrArg List.length hpre.1
    simp at this; omega
  refine ⟨bs, ?_, ?_, ?_, ?_⟩
  · unfold famEncode
    rw [← hde, hlk]
    simp [hb, List.lookup, hfe, henc]
  · unfold famDecode
    have : ¬ bs.length < dp.headerLen := by omega
    simp only [this, if_false, hpre.1, hlk, hfe, hdec]
    cases f; simp_all
  · rw [← hepd, ← hpre.1]
    cases hk' : dp.headerLen with
    | zero => omega
    | succ k =>
      cases bs with
      | nil => simp at hlen; omega
      | cons x xs => simp
  · intro hnil; subst hnil; simp at hlen; omega

/-- C02 through the API: a well-formed message encodes, and the bytes decode to the same message -/
theorem plain_roundtrip (t : Top) (ht : t.wf = true) (m : NasMsg) (hm : WFNas t m) :
    ∃ bs, plainEncode t m = .ok bs ∧ plainDecode t (some bs) = .ok m := by
  have ht' := ht
  unfold Top.wf at ht'
  simp only [Bool.and_eq_true] at ht'
  have hmsgs := ht'.1.1.1.1.1
  have hne : t.epdGmm ≠ t.epdGsm := by simpa using ht'.1.1.2
  rcases hm with ⟨f, rfl, hf⟩ | ⟨f, rfl, hf⟩
  · obtain ⟨bs, h1, h2, h3, h4⟩ := famRoundtrip t.msgs hmsgs t.gmm ht'.1.1.1.1.2 _ f hf
    refine ⟨bs, by simp [plainEncode, h1], ?_⟩
    cases bs with
    | nil => simp at h4
    | cons b rest =>
      simp at h3
      simp [plainDecode, h3, h2]
  · obtain ⟨bs, h1, h2, h3, h4⟩ := famRoundtrip t.msgs hmsgs t.gsm ht'.1.1.1.2 _ f hf
    refine ⟨bs, by simp [plainEncode, h1], ?_⟩
    cases bs with
    | nil => simp at h4
    | cons b rest =>
      simp at h3
      simp [plainDecode, h3, h2, Ne.symm hne]

/-- C03 through the API -/
theorem plain_reencode_fixpoint (t : Top) (ht : t.wf = true) (inp : Option Bytes) (m : NasMsg)
    (h : plainDecode t inp = .ok m) :
    ∃ bs', plainEncode t m = .ok bs' ∧ plainDecode t (some bs') = .ok m ∧
      ∀ m', plainDecode t (some bs') = .ok m' → plainEncode t m' = .ok bs' := by
  obtain ⟨bs', h1, h2⟩ := plain_roundtrip t ht m (plainDecode_sound t ht inp m h)
  refine ⟨bs', h1, h2, ?_⟩
  intro m' hm'
  rw [h2] at hm'
  injection hm' with hm'
  rw [← hm']; exact h1

/-- C03, canonical input: the encoding of a well-formed message is reproduced byte for byte -/
theorem plain_canonical_exact (t : Top) (ht : t.wf = true) (m0 : NasMsg) (hm0 : WFNas t m0) (bs : Bytes)
    (hbs : plainEncode t m0 = .ok bs) : ∃ m, plainDecode t (some bs) = .ok m ∧ plainEncode t m = .ok bs := by
  obtain ⟨bs', h1, h2⟩ := plain_roundtrip t ht m0 hm0
  rw [hbs] at h1
  injection h1 with h1
  subst h1
  exact ⟨m0, h2, hbs⟩

end NasVerif.Codec
