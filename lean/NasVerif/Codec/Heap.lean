import NasVerif.Codec.Defs
/-!
# The codec interpreter over an explicit heap (C10)

Same IR, same clauses as `Codec/Defs.lean`, but memory is explicit: the heap is a list of byte regions (a region id is a
position), the input byte slice is one region, a decoded `Buffer []uint8` is a slice header pointing to a region created by
`SetLen` (`make([]uint8, Len)`), `Octet` / `Octet [n]uint8` storage is part of the message struct itself.
What the Go library calls do to memory is *modelled* here (and recorded in the trusted base):
`bytes.NewBuffer(in)` aliases the input region and only ever reads it; `binary.Read(buf, …, dst)` copies octets out of it into
`dst`; `make` returns a region that did not exist before; `binary.Write` / `bytes.Buffer.Write` append to the output region.
The theorems in `Props/C10.lean` then say, for every table: decoding leaves every pre-existing region (the input included)
untouched, every slice reachable from the decoded message lies in a region created during the call (so it shares no memory
with the input or anything else, and no two elements share one), the heap-free interpreter of C01–C04 is the erasure of this
one, and encoding only appends to the output region.
-/
namespace NasVerif.Codec.HeapSem
open NasVerif NasVerif.Codec

abbrev Heap := List Bytes

inductive Storage
  | inline (data : Bytes)      -- storage inside the message struct (Octet, Octet array, struct{})
  | ref (region : Nat)         -- a slice header covering the whole of a heap region
  | nilSlice                   -- `Buffer` left nil
deriving DecidableEq, Repr

structure IEValH where
  iei : UInt8
  len : Nat
  st  : Storage
deriving DecidableEq, Repr

structure MsgValH where
  man : List IEValH
  opt : List (Option IEValH)
deriving DecidableEq, Repr

def Storage.resolve (h : Heap) : Storage → Bytes
  | .inline d => d
  | .ref r => h.getD r []
  | .nilSlice => []

def IEValH.erase (h : Heap) (v : IEValH) : IEVal := ⟨v.iei, v.len, v.st.resolve h⟩
def MsgValH.erase (h : Heap) (m : MsgValH) : MsgVal := ⟨m.man.map (IEValH.erase h), m.opt.map (Option.map (IEValH.erase h))⟩

/-- regions a value points into -/
def IEValH.refs (v : IEValH) : List Nat := match v.st with | .ref r => [r] | _ => []
def MsgValH.refs (m : MsgValH) : List Nat := m.man.flatMap IEValH.refs ++ m.opt.flatMap (fun o => match o with | some v => v.refs | none => [])

/-- `decContent` with explicit memory: `bs1` is what is left of the input region (only read), `h` the heap -/
def decContentH (s : Slot) (iei : UInt8) (len : Nat) (bs1 : Bytes) (h : Heap) : Outcome (IEValH × Bytes × Heap) :=
  match s.store with
  | .octet =>
    match bs1 with
    | [] => .err .trunc
    | b :: r => .ok (⟨iei, len, .inline [b]⟩, r, h)
  | .arr n =>
    match s.span with
    | .all => if bs1.length < n then .err .trunc else .ok (⟨iei, len, .inline (bs1.take n)⟩, bs1.drop n, h)
    | .toLen =>
      if n < len then .panic
      else if bs1.length < len then .err .trunc
      else .ok (⟨iei, len, .inline (bs1.take len ++ List.replicate (n - len) 0)⟩, bs1.drop len, h)
  | .buf =>
    if s.alloc then
      -- SetLen: a fresh region; binary.Read copies `len` octets of the input into it
      if bs1.length < len then .err .trunc else .ok (⟨iei, len, .ref h.length⟩, bs1.drop len, h ++ [bs1.take len])
    else .ok (⟨iei, len, .nilSlice⟩, bs1, h)
  | .unit => .ok (⟨iei, len, .inline []⟩, bs1, h)

def decBodyH (s : Slot) (iei : UInt8) (bs : Bytes) (h : Heap) : Outcome (IEValH × Bytes × Heap) :=
  match readLen s.lenSize bs with
  | none => .err .trunc
  | some (len, bs1) => if !s.guard.ok len then .err .badLen else decContentH s iei len bs1 h

def decManH : List Slot → Bytes → Heap → Outcome (List IEValH × Bytes × Heap)
  | [], bs, h => .ok ([], bs, h)
  | s :: ss, bs, h =>
    match decBodyH s 0 bs h with
    | .ok (v, rest, h1) =>
      match decManH ss rest h1 with
      | .ok (vs, rest', h2) => .ok (v :: vs, rest', h2)
      | .err e => .err e
      | .panic => .panic
    | .err e => .err e
    | .panic => .panic

def decOptH (d : OptSlot) (b : UInt8) (rest : Bytes) (h : Heap) : Outcome (IEValH × Bytes × Heap) :=
  if d.half then .ok (⟨0, 0, .inline [b]⟩, rest, h)
  else decBodyH d.slot (if d.hasIei then b else 0) rest h

def decLoopH (defs : List OptSlot) : (fuel : Nat) → Bytes → List (Option IEValH) → Heap → Outcome (List (Option IEValH) × Heap)
  | 0, _, s, h => .ok (s, h)
  | _, [], s, h => .ok (s, h)
  | fuel+1, b :: rest, s, h =>
    match findSlot defs (tmpIei b) 0 with
    | none => decLoopH defs fuel rest s h
    | some (i, d) =>
      match decOptH d b rest h with
      | .ok (v, rest', h1) => decLoopH defs fuel rest' (s.set i (some v)) h1
      | .err e => .err e
      | .panic => .panic

/-- decode the input held in region `inp` of heap `h` -/
def decodeH (d : MsgDef) (h : Heap) (inp : Nat) : Outcome (MsgValH × Heap) :=
  let bs := h.getD inp []
  match decManH d.man bs h with
  | .ok (mv, rest, h1) =>
    match decLoopH d.opt rest.length rest (List.replicate d.opt.length none) h1 with
    | .ok (ov, h2) => .ok (⟨mv, ov⟩, h2)
    | .err e => .err e
    | .panic => .panic
  | .err e => .err e
  | .panic => .panic

/-- encode into the output region `out`: reads the message (through the heap), appends to `out`, writes nothing else -/
def encodeH (d : MsgDef) (m : MsgValH) (h : Heap) (out : Nat) : Outcome Heap :=
  match encode d (m.erase h) with
  | .ok bytes => .ok (h.set out (h.getD out [] ++ bytes))
  | .err e => .err e
  | .panic => .panic

end NasVerif.Codec.HeapSem
