import NasVerif.Codec.Defs
/-!
# Per-element lemmas (the only place that looks inside `decBody` / `encBody`)

L1 `decBody_encBody` (round trip), L2 `decBody_valOK` (decoder output is well formed),
L3 `decBody_no_panic`, L4 `decBody_exact` (the consumed bytes are exactly the re-encoding).
-/
namespace NasVerif.Codec
open NasVerif

/-! ## well-formedness of a slot and of a value (both decidable) -/

/-- what panic-freedom of the decoder needs from a slot -/
def Slot.wf (s : Slot) : Bool :=
  decide (s.lenSize ≤ 2) &&
  match s.store, s.span with
  | .arr n, .toLen => (match s.guard.hi with | some h => decide (h ≤ n) | none => false)
  | .arr _, .all => true
  | _, .toLen => false
  | _, .all => true

def lenLimit : Nat → Nat
  | 0 => 1
  | 1 => 256
  | _ => 65536

/-- the property's "well-formed element": declared length in range and equal to the content length -/
def ValOK (s : Slot) (v : IEVal) : Prop :=
  v.len < lenLimit s.lenSize ∧ s.guard.ok v.len = true ∧
  match s.store, s.span with
  | .octet, _ => v.data.length = 1
  | .arr n, .all => v.data.length = n
  | .arr n, .toLen => v.len ≤ n ∧ v.data = v.data.take v.len ++ List.replicate (n - v.len) 0 ∧ v.data.length = n
  | .buf, _ => v.data.length = (if s.alloc then v.len else 0)
  | .unit, _ => v.data = []

instance (s : Slot) (v : IEVal) : Decidable (ValOK s v) := by
  unfold ValOK; cases s.store <;> cases s.span <;> infer_instance

/-! ## guards -/

theorem foldl_max_ge (l : List Nat) (a n : Nat) (h : n ∈ l ∨ n ≤ a) : n ≤ l.foldl Nat.max a := by
  induction l generalizing a with
  | nil => simpa using h
  | cons x xs ih =>
    simp only [List.foldl_cons]
    apply ih
    rcases h with h | h
    · rcases List.mem_cons.mp h with rfl | h
      · right; exact Nat.le_max_right ..
      · left; exact h
    · right; exact Nat.le_trans h (Nat.le_max_left ..)

theorem Guard.le_hi (g : Guard) (n h : Nat) (hok : g.ok n = true) (hh : g.hi = some h) : n ≤ h := by
  cases g with
  | none => simp [Guard.hi] at hh
  | range lo hi => simp [Guard.hi] at hh; simp [Guard.ok] at hok; omega
  | min lo => simp [Guard.hi] at hh
  | max hi => simp [Guard.hi] at hh; simp [Guard.ok] at hok; omega
  | exact k => simp [Guard.hi] at hh; simp [Guard.ok] at hok; omega
  | oneOf l =>
    simp [Guard.hi] at hh; simp [Guard.ok] at hok
    subst hh
    exact foldl_max_ge l 0 n (Or.inl hok)

/-! ## lengths -/

theorem readLen_lenBytes (k n : Nat) (hk : k ≤ 2) (hn : n < lenLimit k) (rest : Bytes) :
    readLen k (lenBytes k n ++ rest) = some (n, rest) := by
  match k, hk with
  | 0, _ => simp [lenLimit] at hn; subst hn; simp [readLen, lenBytes]
  | 1, _ =>
    simp [lenLimit] at hn
    simp [readLen, lenBytes, UInt8.toNat_ofNat']
    omega
  | 2, _ =>
    simp [lenLimit] at hn
    simp [readLen, lenBytes, UInt8.toNat_ofNat']
    omega

theorem readLen_some (k : Nat) (bs : Bytes) (n : Nat) (rest : Bytes) (h : readLen k bs = some (n, rest)) :
    k ≤ 2 ∧ n < lenLimit k ∧ bs = lenBytes k n ++ rest := by
  match k, bs with
  | 0, bs => simp [readLen] at h; obtain ⟨rfl, rfl⟩ := h; simp [lenLimit, lenBytes]
  | 1, [] => simp [readLen] at h
  | 1, b :: bs =>
    simp [readLen] at h; obtain ⟨rfl, rfl⟩ := h
    refine ⟨by omega, by simpa [lenLimit] using b.toNat_lt, ?_⟩
    simp [lenBytes]
  | 2, [] => simp [readLen] at h
  | 2, [_] => simp [readLen] at h
  | 2, x :: y :: bs =>
    simp [readLen] at h; obtain ⟨rfl, rfl⟩ := h
    have hx := x.toNat_lt
    have hy := y.toNat_lt
    refine ⟨by omega, by simp [lenLimit]; omega, ?_⟩
    simp only [lenBytes, List.cons_append, List.nil_append, List.cons.injEq, and_true]
    constructor
    · apply UInt8.toNat_inj.mp
      simp [UInt8.toNat_ofNat'] <;> omega
    · apply UInt8.toNat_inj.mp
      simp
  | k+3, bs => simp [readLen] at h

/-! ## L3: no panic -/

theorem decBody_no_panic (s : Slot) (hs : s.wf = true) (iei : UInt8) (bs : Bytes) :
    decBody s iei bs ≠ .panic := by
  unfold decBody decContent
  split
  · simp
  · rename_i len bs1 hrl
    split
    · simp
    · rename_i hg
      simp at hg
      cases hst : s.store with
      | octet => dsimp only; cases bs1 <;> simp
      | buf => dsimp only; repeat' split
               all_goals simp
      | unit => simp
      | arr n =>
        cases hsp : s.span with
        | all => simp; split <;> simp
        | toLen =>
          simp only
          unfold Slot.wf at hs
          rw [hst, hsp] at hs
          simp at hs
          obtain ⟨_, hs⟩ := hs
          split at hs
          · rename_i h hh
            simp at hs
            have := Guard.le_hi _ _ _ hg hh
            have hlt : ¬ n < len := by omega
            simp [hlt]; split <;> simp
          · simp at hs

/-! ## L1: round trip of one element -/

theorem decBody_encBody (s : Slot) (hs : s.wf = true) (v : IEVal) (hv : ValOK s v) :
    ∃ b, encBody s v = .ok b ∧ ∀ rest, decBody s v.iei (b ++ rest) = .ok (v, rest) := by
  obtain ⟨hlen, hg, hshape⟩ := hv
  have hk : s.lenSize ≤ 2 := by
    unfold Slot.wf at hs; simp at hs; exact hs.1
  unfold encBody encContent decBody decContent
  cases hst : s.store with
  | octet =>
    simp only [hst] at hshape
    match hd : v.data, hshape with
    | [b], _ =>
      refine ⟨_, rfl, ?_⟩
      intro rest
      simp [List.append_assoc, readLen_lenBytes _ _ hk hlen, hg]
      cases v; simp_all
  | unit =>
    simp only [hst] at hshape
    refine ⟨_, rfl, ?_⟩
    intro rest
    simp [readLen_lenBytes _ _ hk hlen, hg]
    cases v; simp_all
  | buf =>
    simp only [hst] at hshape
    refine ⟨_, rfl, ?_⟩
    intro rest
    simp [List.append_assoc, readLen_lenBytes _ _ hk hlen, hg]
    have : ¬ (v.data.length + rest.length < if s.alloc = true then v.len else 0) := by omega
    simp [this]
    rw [← hshape]
    simp
  | arr n =>
    cases hsp : s.span with
    | all =>
      simp only [hst, hsp] at hshape
      refine ⟨_, rfl, ?_⟩
      intro rest
      simp [List.append_assoc, readLen_lenBytes _ _ hk hlen, hg]
      have : ¬ (v.data.length + rest.length < n) := by omega
      simp [this]
      rw [← hshape]
      simp
    | toLen =>
      simp only [hst, hsp] at hshape
      obtain ⟨hle, hdata, hdl⟩ := hshape
      have hlt : ¬ n < v.len := by omega
      simp only [hlt, if_false]
      refine ⟨_, rfl, ?_⟩
      intro rest
      simp [List.append_assoc, readLen_lenBytes _ _ hk hlen, hg, hlt]
      have hmin : min v.len v.data.length = v.len := by omega
      simp [hmin]
      have : ¬ (v.len + rest.length < v.len) := by omega
      simp only [this, if_false]
      rw [← hdata]

/-! ## L2 + L4: decoder output is well formed and re-encodes to the consumed bytes -/

theorem decBody_sound (s : Slot) (iei : UInt8) (bs : Bytes) (v : IEVal) (rest : Bytes)
    (h : decBody s iei bs = .ok (v, rest)) :
    ValOK s v ∧ v.iei = iei ∧ ∃ b, encBody s v = .ok b ∧ bs = b ++ rest := by
  unfold decBody decContent at h
  split at h
  · simp at h
  · rename_i len bs1 hrl
    obtain ⟨hk, hlim, hbs⟩ := readLen_some _ _ _ _ hrl
    split at h
    · simp at h
    · rename_i hg
      simp at hg
      unfold ValOK encBody encContent
      cases hst : s.store with
      | octet =>
        rw [hst] at h
        cases bs1 with
        | nil => simp at h
        | cons b r =>
          simp at h; obtain ⟨rfl, rfl⟩ := h
          simp [hlim, hg, hbs]
      | unit =>
        rw [hst] at h
        simp at h; obtain ⟨rfl, rfl⟩ := h
        simp [hlim, hg, hbs]
      | buf =>
        rw [hst] at h
        simp only at h
        by_cases hl : bs1.length < (if s.alloc = true then len else 0)
        · simp [hl] at h
        · simp [hl] at h; obtain ⟨rfl, rfl⟩ := h
          simp [hlim, hg, hbs]
          omega
      | arr n =>
        rw [hst] at h
        cases hsp : s.span with
        | all =>
          rw [hsp] at h
          simp only at h
          by_cases hl : bs1.length < n
          · simp [hl] at h
          · simp [hl] at h; obtain ⟨rfl, rfl⟩ := h
            simp [hlim, hg, hbs]
            omega
        | toLen =>
          rw [hsp] at h
          simp only at h
          by_cases hn : n < len
          · simp [hn] at h
          · by_cases hl : bs1.length < len
            · simp [hn, hl] at h
            · simp [hn, hl] at h; obtain ⟨rfl, rfl⟩ := h
              have hmin : min len bs1.length = len := by omega
              simp [hlim, hg, hbs, hn, hmin]
              omega

theorem decBody_length (s : Slot) (iei : UInt8) (bs : Bytes) (v : IEVal) (rest : Bytes)
    (h : decBody s iei bs = .ok (v, rest)) : rest.length ≤ bs.length := by
  obtain ⟨_, _, b, _, rfl⟩ := decBody_sound s iei bs v rest h
  simp

end NasVerif.Codec
