def hello := "world"
