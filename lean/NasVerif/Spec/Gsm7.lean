import NasVerif.Model.Conv17
/-!
# GSM 7-bit default alphabet packing (TS 23.038 6.1.2.1.1): the specification side

Character i occupies bits 7i … 7i+6 of the octet string read as one little-endian number. The decoder is that sentence.
-/
namespace NasVerif.Spec.Gsm7
open NasVerif

/-- the octet string as a little-endian number -/
def leValue : Bytes → Nat
  | [] => 0
  | b :: r => b.toNat + 256 * leValue r

/-- TS 23.038: character i is bits 7i … 7i+6 -/
def unpackGsm7 (buf : Bytes) (n : Nat) : List UInt8 :=
  (List.range n).map (fun i => UInt8.ofNat (leValue buf / 2 ^ (7 * i) % 128))

/-- the value of a list of 7-bit characters as base-128 digits, least significant first -/
def digits128 : List UInt8 → Nat
  | [] => 0
  | c :: cs => c.toNat + 128 * digits128 cs

end NasVerif.Spec.Gsm7
