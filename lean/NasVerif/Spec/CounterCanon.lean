/-!
# NAS COUNT: the canonical definitions (C11)

The bodies of `security/counter.go` at the pinned commit, as produced by the integer translator (Go `uint32` = `BitVec 32`,
wrap-around `+`, masks, shifts, conversions = `setWidth`). Every C11 theorem is stated about these definitions.
`Props/C11Tie.lean` ties them to the definitions regenerated from the source on every run: by `rfl` while the source text
translates to the same terms, by a bit-vector decision procedure when the source was rewritten (see DESIGN.md section 9.6).
-/
namespace NasVerif.Spec.CounterCanon


def maskTo24Bits (s_count : BitVec 32)  : BitVec 32 × Unit :=
  let s_count_1 : BitVec 32 := (s_count &&& 16777215#32)
  (s_count_1, ())

def AddOne (s_count : BitVec 32)  : BitVec 32 × Unit :=
  let s_count_1 : BitVec 32 := (s_count + 1#32)
  let r_2 := maskTo24Bits s_count_1 
  let s_count_3 : BitVec 32 := r_2.1
  (s_count_3, ())

def Get (s_count : BitVec 32)  : BitVec 32 × BitVec 32 :=
  let r_1 := maskTo24Bits s_count 
  let s_count_2 : BitVec 32 := r_1.1
  (s_count_2, s_count_2)

def Overflow (s_count : BitVec 32)  : BitVec 32 × BitVec 16 :=
  (s_count, ((((s_count &&& 16776960#32) >>> 8)).setWidth 16))

def SQN (s_count : BitVec 32)  : BitVec 32 × BitVec 8 :=
  (s_count, (((s_count &&& 255#32)).setWidth 8))

def SetOverflow (s_count : BitVec 32) (overflow : BitVec 16) : BitVec 32 × Unit :=
  let s_count_1 : BitVec 32 := ((s_count &&& 4278190335#32) ||| (((overflow).setWidth 32) <<< 8))
  (s_count_1, ())

def SetSQN (s_count : BitVec 32) (sqn : BitVec 8) : BitVec 32 × Unit :=
  let s_count_1 : BitVec 32 := ((s_count &&& 4294967040#32) ||| ((sqn).setWidth 32))
  (s_count_1, ())

def Set (s_count : BitVec 32) (overflow : BitVec 16) (sqn : BitVec 8) : BitVec 32 × Unit :=
  let r_1 := SetOverflow s_count overflow
  let s_count_2 : BitVec 32 := r_1.1
  let r_3 := SetSQN s_count_2 sqn
  let s_count_4 : BitVec 32 := r_3.1
  (s_count_4, ())

end NasVerif.Spec.CounterCanon
