import NasVerif.Prelude.Basic
/-!
# Message tables in the vocabulary of TS 24.501 §8 / TS 24.007 §11.2, with a renderer and a table-driven decoder
written from the framing rules (independent of the library's code and of `Codec.decode`).

Formats: V (value only), LV / LV-E (1 / 2 length octets + value), TV (identifier + fixed value), TV1 (type 1: identifier
in bits 8..5 of a single octet), TLV / TLV-E.
-/
namespace NasVerif.Spec
open NasVerif

inductive Format | V | LV | LVE | TV | TV1 | TLV | TLVE
deriving DecidableEq, Repr, Inhabited

/-- admissible lengths of the value part, in octets -/
inductive Lens
  | range (lo hi : Nat)
  | oneOf (l : List Nat)
deriving DecidableEq, Repr, Inhabited

def Lens.ok : Lens → Nat → Bool
  | .range lo hi, n => lo ≤ n && n ≤ hi
  | .oneOf l, n => l.contains n

structure IE where
  fmt  : Format
  iei  : Nat        -- information element identifier (0 for mandatory elements)
  lens : Lens       -- for V / TV: `range n n` with n the fixed size
deriving DecidableEq, Repr, Inhabited

structure Msg where
  man : List IE
  opt : List IE
deriving DecidableEq, Repr, Inhabited

/-- value of an element: identifier octet as received (0 if none), declared length (0 if none), value octets -/
structure Val where
  iei   : UInt8
  len   : Nat
  value : Bytes
deriving DecidableEq, Repr, Inhabited

structure MVal where
  man : List Val
  opt : List (Option Val)
deriving DecidableEq, Repr, Inhabited

def len1 (n : Nat) : Bytes := [UInt8.ofNat n]
def len2 (n : Nat) : Bytes := [UInt8.ofNat (n / 256), UInt8.ofNat n]

/-- TS 24.007 §11.2.1: how one element is laid out -/
def renderIE (ie : IE) (v : Val) : Bytes :=
  match ie.fmt with
  | .V => v.value
  | .LV => len1 v.len ++ v.value
  | .LVE => len2 v.len ++ v.value
  | .TV => [v.iei] ++ v.value
  | .TV1 => v.value
  | .TLV => [v.iei] ++ len1 v.len ++ v.value
  | .TLVE => [v.iei] ++ len2 v.len ++ v.value

def renderMan : List IE → List Val → Bytes
  | ie :: ies, v :: vs => renderIE ie v ++ renderMan ies vs
  | _, _ => []

def renderOpt : List IE → List (Option Val) → Bytes
  | ie :: ies, some v :: vs => renderIE ie v ++ renderOpt ies vs
  | _ :: ies, none :: vs => renderOpt ies vs
  | _, _ => []

/-- header and mandatory elements in table order, then each present optional element in table order -/
def render (m : Msg) (v : MVal) : Bytes := renderMan m.man v.man ++ renderOpt m.opt v.opt

/-! ## table-driven decoder -/

def fixedSize : Lens → Nat
  | .range lo _ => lo
  | .oneOf _ => 0

def takeN (n : Nat) (bs : Bytes) : Option (Bytes × Bytes) :=
  if bs.length < n then none else some (bs.take n, bs.drop n)

/-- the part of an element after its identifier: (declared length, value, rest) -/
def decValue (ie : IE) (bs : Bytes) : Option (Nat × Bytes × Bytes) :=
  match ie.fmt with
  | .V | .TV | .TV1 => (takeN (fixedSize ie.lens) bs).map (fun (v, r) => (0, v, r))
  | .LV | .TLV =>
    match bs with
    | [] => none
    | l :: r => if ie.lens.ok l.toNat then (takeN l.toNat r).map (fun (v, r') => (l.toNat, v, r')) else none
  | .LVE | .TLVE =>
    match bs with
    | h :: l :: r =>
      let n := h.toNat * 256 + l.toNat
      if ie.lens.ok n then (takeN n r).map (fun (v, r') => (n, v, r')) else none
    | _ => none

def decMan : List IE → Bytes → Option (List Val × Bytes)
  | [], bs => some ([], bs)
  | ie :: ies, bs =>
    match decValue ie bs with
    | none => none
    | some (n, v, r) =>
      match decMan ies r with
      | none => none
      | some (vs, r') => some (⟨0, n, v⟩ :: vs, r')

/-- the identifier an octet stands for: type-1 elements carry it in the high nibble -/
def ieiOf (b : UInt8) : Nat := if 0x80 ≤ b.toNat then b.toNat / 16 else b.toNat

def lookup : List IE → Nat → Nat → Option (Nat × IE)
  | [], _, _ => none
  | ie :: ies, t, k => if ie.iei = t then some (k, ie) else lookup ies t (k+1)

/-- optional part: any sequence of known elements (any order, a later duplicate replaces an earlier one);
an octet that is not a known identifier is skipped -/
def decOpts (ies : List IE) : Nat → Bytes → List (Option Val) → Option (List (Option Val))
  | 0, _, acc => some acc
  | _, [], acc => some acc
  | fuel+1, b :: rest, acc =>
    match lookup ies (ieiOf b) 0 with
    | none => decOpts ies fuel rest acc
    | some (i, ie) =>
      if ie.fmt = .TV1 then decOpts ies fuel rest (acc.set i (some ⟨0, 0, [b]⟩))
      else match decValue ie rest with
        | none => none
        | some (n, v, r) => decOpts ies fuel r (acc.set i (some ⟨b, n, v⟩))

def decode (m : Msg) (bs : Bytes) : Option MVal :=
  match decMan m.man bs with
  | none => none
  | some (vs, rest) =>
    match decOpts m.opt rest.length rest (List.replicate m.opt.length none) with
    | none => none
    | some os => some ⟨vs, os⟩

end NasVerif.Spec
