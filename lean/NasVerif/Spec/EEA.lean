import NasVerif.Spec.Snow3G
import NasVerif.Spec.ZUC
import NasVerif.Spec.AES
/-!
# The 3GPP confidentiality / integrity functions, written from the standards in bit-string vocabulary

* UEA2 f8 / UIA2 f9 (ETSI/SAGE UEA2 & UIA2 document 1) = 128-EEA1 / 128-EIA1
* 128-EEA2 / 128-EIA2 (TS 33.401 B.1.3 / B.2.3): AES-128 CTR / CMAC, for any block cipher `E`
* 128-EEA3 / 128-EIA3 (EEA3/EIA3 specification v1.8): ZUC
Parameter mapping of TS 33.501 Annex D: KEY (128 bits), COUNT (32), BEARER (5), DIRECTION (1), LENGTH (bits).
Bit strings are `List Bool`, most significant bit of each octet first.
-/
namespace NasVerif.Spec
open NasVerif

def byteBits (b : UInt8) : List Bool := (List.range 8).map (fun i => b.toNat.testBit (7 - i))
def bytesBits (bs : Bytes) : List Bool := bs.flatMap byteBits
def wordBits (w : BitVec 32) : List Bool := (List.range 32).map (fun i => w.toNat.testBit (31 - i))
def wordsBits (ws : List (BitVec 32)) : List Bool := ws.flatMap wordBits
def xorBits (a b : List Bool) : List Bool := List.zipWith (· != ·) a b
/-- pack bits into octets, zero-padding the last one -/
def bitsToByte (l : List Bool) : UInt8 := UInt8.ofNat ((List.range 8).foldl (fun a i => 2 * a + (if l.getD i false then 1 else 0)) 0)
def bitsToBytes : Nat → List Bool → Bytes
  | 0, _ => []
  | n+1, l => bitsToByte (l.take 8) :: bitsToBytes n (l.drop 8)

def word (b : Bytes) (i : Nat) : BitVec 32 :=
  BitVec.ofNat 32 ((b.getD (4*i) 0).toNat * 2^24 + (b.getD (4*i+1) 0).toNat * 2^16 + (b.getD (4*i+2) 0).toNat * 2^8 + (b.getD (4*i+3) 0).toNat)

/-! ## UEA2 f8 (= 128-EEA1) -/

/-- K3 = CK[0..31] … K0 = CK[96..127]; IV3 = COUNT, IV2 = BEARER ‖ DIRECTION ‖ 0^26, IV1 = IV3, IV0 = IV2 -/
def f8Key (ck : Bytes) : List (BitVec 32) := [word ck 3, word ck 2, word ck 1, word ck 0]
def f8IV (count bearer direction : Nat) : List (BitVec 32) :=
  let w : BitVec 32 := BitVec.ofNat 32 (bearer * 2^27 + direction * 2^26)
  [w, BitVec.ofNat 32 count, w, BitVec.ofNat 32 count]

/-- output bit string: IBS xor the first LENGTH keystream bits -/
def f8 (ck : Bytes) (count bearer direction : Nat) (ibs : List Bool) : List Bool :=
  let L := (ibs.length + 31) / 32
  xorBits ibs ((wordsBits (Snow3G.keystream (f8Key ck) (f8IV count bearer direction) L)).take ibs.length)

/-! ## UIA2 f9 (= 128-EIA1) -/

abbrev W64 := BitVec 64
def MULx64 (V c : W64) : W64 := if V.msb then (V <<< 1) ^^^ c else V <<< 1
def MULxPOW64 (V : W64) : Nat → W64 → W64
  | 0, _ => V
  | i+1, c => MULx64 (MULxPOW64 V i c) c
/-- MUL(V, P, c): sum over the set bits i of P of MULxPOW(V, i, c) -/
def MUL64 (V P c : W64) : W64 :=
  (List.range 64).foldl (fun acc i => if P.getLsbD i then acc ^^^ MULxPOW64 V i c else acc) 0

def bits64 (l : List Bool) : W64 := BitVec.ofNat 64 ((List.range 64).foldl (fun a i => 2 * a + (if l.getD i false then 1 else 0)) 0)

def f9IV (count fresh direction : Nat) : List (BitVec 32) :=
  -- IV3 = COUNT, IV2 = FRESH, IV1 = DIRECTION[0] ‖ 0^31 xor COUNT, IV0 = FRESH xor (DIRECTION ‖ 0^15 at bit 16)
  [BitVec.ofNat 32 fresh ^^^ BitVec.ofNat 32 (direction * 2^15), BitVec.ofNat 32 count ^^^ BitVec.ofNat 32 (direction * 2^31),
   BitVec.ofNat 32 fresh, BitVec.ofNat 32 count]

def evalBlocks (P : W64) : Nat → List Bool → W64 → W64
  | 0, _, ev => ev
  | n+1, m, ev => evalBlocks P n (m.drop 64) (MUL64 (ev ^^^ bits64 (m.take 64)) P 0x1b)

/-- MAC-I over the LENGTH-bit message `m`; FRESH = BEARER ‖ 0^27 (TS 33.401 / 33.501 mapping) -/
def f9 (ik : Bytes) (count bearer direction : Nat) (m : List Bool) : BitVec 32 :=
  let z := Snow3G.keystream (f8Key ik) (f9IV count (bearer * 2^27) direction) 5
  let zz (i : Nat) : W64 := (z.getD i 0).setWidth 64
  let P := (zz 0 <<< 32) ||| zz 1
  let Q := (zz 2 <<< 32) ||| zz 3
  let D := (m.length + 63) / 64 + 1
  -- blocks M_0 … M_{D-2} (the last one zero padded), then M_{D-1} = LENGTH
  let ev := evalBlocks P (D - 1) m 0
  let ev := ev ^^^ BitVec.ofNat 64 m.length
  let ev := MUL64 ev Q 0x1b
  (ev >>> 32).setWidth 32 ^^^ z.getD 4 0

/-! ## 128-EEA2 / 128-EIA2 -/

/-- T1 = COUNT ‖ BEARER ‖ DIRECTION ‖ 0^26 ‖ 0^64 -/
def t1 (count bearer direction : Nat) : Bytes :=
  [UInt8.ofNat (count / 2^24), UInt8.ofNat (count / 2^16), UInt8.ofNat (count / 2^8), UInt8.ofNat count,
   UInt8.ofNat (bearer * 8 + direction * 4)] ++ List.replicate 11 0

def eea2 (E : Bytes → Bytes) (count bearer direction : Nat) (pt : Bytes) : Bytes :=
  AES.ctr E (t1 count bearer direction) pt

/-- M = COUNT ‖ BEARER ‖ DIRECTION ‖ 0^26 ‖ MESSAGE; MAC = the 32 most significant bits of CMAC -/
def eia2 (E : Bytes → Bytes) (count bearer direction : Nat) (msg : Bytes) : Bytes :=
  ((AES.cmac E ((t1 count bearer direction).take 8 ++ msg)).take 4)

/-! ## 128-EEA3 / 128-EIA3 -/

def eea3IV (count bearer direction : Nat) : List Nat :=
  let c := [count / 2^24 % 256, count / 2^16 % 256, count / 2^8 % 256, count % 256, bearer * 8 + direction * 4, 0, 0, 0]
  c ++ c

def eea3 (ck : Bytes) (count bearer direction : Nat) (ibs : List Bool) : List Bool :=
  let L := (ibs.length + 31) / 32
  xorBits ibs ((wordsBits (ZUC.keystream (ck.map (·.toNat)) (eea3IV count bearer direction) L)).take ibs.length)

def eia3IV (count bearer direction : Nat) : List Nat :=
  let c0 := count / 2^24 % 256; let c1 := count / 2^16 % 256; let c2 := count / 2^8 % 256; let c3 := count % 256
  -- IV[8] = COUNT[0] xor (DIRECTION << 7), IV[14] = DIRECTION << 7 (v1.8 §4.2)
  [c0, c1, c2, c3, bearer * 8, 0, 0, 0, c0 ^^^ (direction * 128), c1, c2, c3, bearer * 8, 0, direction * 128, 0]

/-- the 32-bit window of the keystream bit string starting at bit i -/
def zWindow (zbits : List Bool) (i : Nat) : BitVec 32 :=
  BitVec.ofNat 32 ((List.range 32).foldl (fun a j => 2 * a + (if zbits.getD (i + j) false then 1 else 0)) 0)

def eia3 (ik : Bytes) (count bearer direction : Nat) (m : List Bool) : BitVec 32 :=
  let L := (m.length + 31) / 32 + 2
  let z := wordsBits (ZUC.keystream (ik.map (·.toNat)) (eia3IV count bearer direction) L)
  let T := (List.range m.length).foldl (fun t i => if m.getD i false then t ^^^ zWindow z i else t) 0
  let T := T ^^^ zWindow z m.length
  T ^^^ zWindow z (32 * (L - 1))

end NasVerif.Spec
