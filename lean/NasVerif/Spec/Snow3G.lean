import NasVerif.Spec.CryptoTables
/-!
# SNOW 3G, written from the ETSI/SAGE specification (UEA2 & UIA2 document 2) in the specification's vocabulary

MULx, MULxPOW, S1 (Rijndael S-box S_R + MixColumn), S2 (S_Q), MULα, DIVα, LFSR (initialisation / keystream mode),
FSM, initialisation (32 rounds), keystream generation (first FSM output discarded).
Validated on the published test set 1 (driver self-test): z1 = abee9704, z2 = 7ac31373.
-/
namespace NasVerif.Spec.Snow3G
abbrev W8 := BitVec 8
abbrev W32 := BitVec 32

def SR (x : W8) : W8 := BitVec.ofNat 8 (Tab.snow_sr.getD x.toNat 0)
def SQ (x : W8) : W8 := BitVec.ofNat 8 (Tab.snow_sq.getD x.toNat 0)

/-- 3.1.1 MULx: V << 1 xor c if the leftmost bit of V is 1 -/
def MULx (V c : W8) : W8 := if V.msb then (V <<< 1) ^^^ c else V <<< 1
/-- 3.1.2 MULxPOW -/
def MULxPOW (V : W8) : Nat → W8 → W8
  | 0, _ => V
  | i+1, c => MULx (MULxPOW V i c) c

/-- byte 0 = most significant -/
def byte (w : W32) (i : Nat) : W8 := (w >>> (8 * (3 - i))).setWidth 8
def cat4 (a b c d : W8) : W32 := (a.setWidth 32 <<< 24) ||| (b.setWidth 32 <<< 16) ||| (c.setWidth 32 <<< 8) ||| d.setWidth 32

/-- 3.3.1 S1 -/
def S1 (w : W32) : W32 :=
  let s0 := SR (byte w 0); let s1 := SR (byte w 1); let s2 := SR (byte w 2); let s3 := SR (byte w 3)
  cat4 (MULx s0 0x1b ^^^ s1 ^^^ s2 ^^^ MULx s3 0x1b ^^^ s3)
       (MULx s0 0x1b ^^^ s0 ^^^ MULx s1 0x1b ^^^ s2 ^^^ s3)
       (s0 ^^^ MULx s1 0x1b ^^^ s1 ^^^ MULx s2 0x1b ^^^ s3)
       (s0 ^^^ s1 ^^^ MULx s2 0x1b ^^^ s2 ^^^ MULx s3 0x1b)
/-- 3.3.2 S2 -/
def S2 (w : W32) : W32 :=
  let s0 := SQ (byte w 0); let s1 := SQ (byte w 1); let s2 := SQ (byte w 2); let s3 := SQ (byte w 3)
  cat4 (MULx s0 0x69 ^^^ s1 ^^^ s2 ^^^ MULx s3 0x69 ^^^ s3)
       (MULx s0 0x69 ^^^ s0 ^^^ MULx s1 0x69 ^^^ s2 ^^^ s3)
       (s0 ^^^ MULx s1 0x69 ^^^ s1 ^^^ MULx s2 0x69 ^^^ s3)
       (s0 ^^^ s1 ^^^ MULx s2 0x69 ^^^ s2 ^^^ MULx s3 0x69)

/-- 3.4.2 MULα, 3.4.3 DIVα -/
def MULa (c : W8) : W32 := cat4 (MULxPOW c 23 0xa9) (MULxPOW c 245 0xa9) (MULxPOW c 48 0xa9) (MULxPOW c 239 0xa9)
def DIVa (c : W8) : W32 := cat4 (MULxPOW c 16 0xa9) (MULxPOW c 39 0xa9) (MULxPOW c 6 0xa9) (MULxPOW c 64 0xa9)

structure St where
  s  : List W32      -- s0 … s15
  r1 : W32
  r2 : W32
  r3 : W32
deriving DecidableEq

def sAt (st : St) (i : Nat) : W32 := st.s.getD i 0

/-- 3.4.6 clocking the FSM: returns F -/
def clockFSM (st : St) : W32 × St :=
  let F := (sAt st 15 + st.r1) ^^^ st.r2
  let r := st.r2 + (st.r3 ^^^ sAt st 5)
  (F, { st with r3 := S2 st.r2, r2 := S1 st.r1, r1 := r })

/-- 3.4.4 / 3.4.5 clocking the LFSR (F = 0 in keystream mode) -/
def lfsrStep (st : St) (F : W32) : St :=
  let s0 := sAt st 0; let s11 := sAt st 11
  let v := (s0 <<< 8) ^^^ MULa (byte s0 0) ^^^ sAt st 2 ^^^ (s11 >>> 8) ^^^ DIVa (byte s11 3) ^^^ F
  { st with s := st.s.drop 1 ++ [v] }

/-- 4.1 initialisation: k = [k0,k1,k2,k3], iv = [IV0,IV1,IV2,IV3] -/
def initSt (k iv : List W32) : St :=
  let K i := k.getD i 0; let IV i := iv.getD i 0; let one : W32 := 0xffffffff
  { s := [K 0 ^^^ one, K 1 ^^^ one, K 2 ^^^ one, K 3 ^^^ one, K 0, K 1, K 2, K 3,
          K 0 ^^^ one, K 1 ^^^ one ^^^ IV 3, K 2 ^^^ one ^^^ IV 2, K 3 ^^^ one,
          K 0 ^^^ IV 1, K 1, K 2, K 3 ^^^ IV 0], r1 := 0, r2 := 0, r3 := 0 }

def initRounds : Nat → St → St
  | 0, st => st
  | n+1, st => let (F, st') := clockFSM st; initRounds n (lfsrStep st' F)

def ksLoop : Nat → St → List W32
  | 0, _ => []
  | n+1, st => let (F, st') := clockFSM st; (F ^^^ sAt st' 0) :: ksLoop n (lfsrStep st' 0)

/-- 4.2 generation of keystream: n words z1 … zn -/
def keystream (k iv : List W32) (n : Nat) : List W32 :=
  let st := initRounds 32 (initSt k iv)
  let (_, st') := clockFSM st
  ksLoop n (lfsrStep st' 0)

end NasVerif.Spec.Snow3G
