import NasVerif.Spec.CryptoTables
/-!
# ZUC (specification v1.6), written from the specification: the LFSR works in GF(2^31 - 1), here in `Nat` arithmetic
modulo p = 2^31 - 1 with the residue 0 represented by p (the specification's "if s16 = 0 then s16 = 2^31 - 1").
Validated on the three published keystream vectors (driver self-test).
-/
namespace NasVerif.Spec.ZUC
abbrev W32 := BitVec 32
def P : Nat := 2^31 - 1

structure St where
  s  : List Nat      -- 16 cells, each in [1, 2^31-1]
  r1 : W32
  r2 : W32
deriving DecidableEq

def cell (st : St) (i : Nat) : Nat := st.s.getD i 0
/-- representative in [1, p] of a residue mod p -/
def norm (v : Nat) : Nat := if v % P = 0 then P else v % P

/-- LFSRWithInitialisationMode(u) / LFSRWithWorkMode() (u = 0) -/
def lfsrNext (st : St) (u : Nat) : Nat :=
  norm (2^15 * cell st 15 + 2^17 * cell st 13 + 2^21 * cell st 10 + 2^20 * cell st 4 + (1 + 2^8) * cell st 0 + u)
def lfsrStep (st : St) (u : Nat) : St := { st with s := st.s.drop 1 ++ [lfsrNext st u] }

def hi16 (x : Nat) : Nat := x / 2^15 % 2^16      -- bits 30..15 of a 31-bit cell
def lo16 (x : Nat) : Nat := x % 2^16
/-- bit reorganisation -/
def br (st : St) : W32 × W32 × W32 × W32 :=
  let w (h l : Nat) : W32 := BitVec.ofNat 32 (h * 2^16 + l)
  (w (hi16 (cell st 15)) (lo16 (cell st 14)), w (lo16 (cell st 11)) (hi16 (cell st 9)),
   w (lo16 (cell st 7)) (hi16 (cell st 5)), w (lo16 (cell st 2)) (hi16 (cell st 0)))

def L1 (x : W32) : W32 := x ^^^ x.rotateLeft 2 ^^^ x.rotateLeft 10 ^^^ x.rotateLeft 18 ^^^ x.rotateLeft 24
def L2 (x : W32) : W32 := x ^^^ x.rotateLeft 8 ^^^ x.rotateLeft 14 ^^^ x.rotateLeft 22 ^^^ x.rotateLeft 30
def sb (t : List Nat) (x : W32) (sh : Nat) : W32 := BitVec.ofNat 32 (t.getD ((x >>> sh).toNat % 256) 0)
def S (x : W32) : W32 := (sb Tab.zuc_s0 x 24 <<< 24) ||| (sb Tab.zuc_s1 x 16 <<< 16) ||| (sb Tab.zuc_s0 x 8 <<< 8) ||| sb Tab.zuc_s1 x 0

/-- the nonlinear function F -/
def F (st : St) (x0 x1 x2 : W32) : W32 × St :=
  let W := (x0 ^^^ st.r1) + st.r2
  let W1 := st.r1 + x1
  let W2 := st.r2 ^^^ x2
  (W, { st with r1 := S (L1 ((W1 <<< 16) ||| (W2 >>> 16))), r2 := S (L2 ((W2 <<< 16) ||| (W1 >>> 16))) })

/-- key loading: s_i = k_i ‖ d_i ‖ iv_i -/
def load (k iv : List Nat) : St :=
  { s := (List.range 16).map (fun i => k.getD i 0 * 2^23 + Tab.zuc_d.getD i 0 * 2^8 + iv.getD i 0), r1 := 0, r2 := 0 }

def initRounds : Nat → St → St
  | 0, st => st
  | n+1, st => let (x0, x1, x2, _) := br st; let (W, st') := F st x0 x1 x2; initRounds n (lfsrStep st' (W.toNat / 2))

def ksLoop : Nat → St → List W32
  | 0, _ => []
  | n+1, st => let (x0, x1, x2, x3) := br st; let (W, st') := F st x0 x1 x2; (W ^^^ x3) :: ksLoop n (lfsrStep st' 0)

def keystream (k iv : List Nat) (n : Nat) : List W32 :=
  let st := initRounds 32 (load k iv)
  let (x0, x1, x2, _) := br st
  let (_, st') := F st x0 x1 x2
  ksLoop n (lfsrStep st' 0)

end NasVerif.Spec.ZUC
