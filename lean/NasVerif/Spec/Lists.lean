import NasVerif.Spec.Identity
import NasVerif.Model.Convert
/-!
# Slice and area lists — decoders written from TS 24.501 9.11.2.8, 9.11.3.37, 9.11.3.46, 9.11.3.9, 9.11.3.49, 9.11.3.29/30

These are the "independent decoder written from the specification" of property C13: they read the octet layouts of the
figures and know nothing about how the library produces them. Values reuse the plain records of the model
(`Snssai`, `MappedSnssai`) because those are just the fields of the 3GPP elements.
-/
namespace NasVerif.Spec.Lists
open NasVerif NasVerif.Model.Convert

/-- one S-NSSAI in length-value form (9.11.2.8, Table 9.11.2.8.1): length 1 = SST; 2 = SST + mapped SST; 4 = SST + SD;
5 = SST + SD + mapped SST; 8 = SST + SD + mapped SST + mapped SD; all other lengths are reserved -/
def decSnssaiLV : Bytes → Option (MappedSnssai × Bytes)
  | 1 :: s :: r => some (⟨⟨s, none⟩, none⟩, r)
  | 2 :: s :: h :: r => some (⟨⟨s, none⟩, some ⟨h, none⟩⟩, r)
  | 4 :: s :: a :: b :: c :: r => some (⟨⟨s, some [a, b, c]⟩, none⟩, r)
  | 5 :: s :: a :: b :: c :: h :: r => some (⟨⟨s, some [a, b, c]⟩, some ⟨h, none⟩⟩, r)
  | 8 :: s :: a :: b :: c :: h :: x :: y :: z :: r => some (⟨⟨s, some [a, b, c]⟩, some ⟨h, some [x, y, z]⟩⟩, r)
  | _ => none

theorem decSnssaiLV_shorter {bs r : Bytes} {m : MappedSnssai} (h : decSnssaiLV bs = some (m, r)) : r.length < bs.length := by
  unfold decSnssaiLV at h
  split at h <;> first | (cases h; simp; try omega) | cases h

/-- NSSAI value (9.11.3.37): a sequence of S-NSSAI length-value elements filling the contents exactly -/
def decNssai : Nat → Bytes → Option (List MappedSnssai)
  | _, [] => some []
  | 0, _ :: _ => none
  | fuel + 1, b :: bs =>
    match decSnssaiLV (b :: bs) with
    | some (m, r) => (decNssai fuel r).map (m :: ·)
    | none => none

/-- one rejected S-NSSAI (9.11.3.46): octet 1 = length (bits 8..5) | cause (bits 4..1); length 1 = SST, 4 = SST + SD -/
def decRejected : Nat → Bytes → Option (List (Snssai × UInt8))
  | _, [] => some []
  | 0, _ :: _ => none
  | fuel + 1, o :: r =>
    if o >>> 4 = 1 then
      match r with
      | s :: r' => (decRejected fuel r').map ((⟨s, none⟩, o &&& 0x0f) :: ·)
      | _ => none
    else if o >>> 4 = 4 then
      match r with
      | s :: a :: b :: c :: r' => (decRejected fuel r').map ((⟨s, some [a, b, c]⟩, o &&& 0x0f) :: ·)
      | _ => none
    else none

/-- a tracking area identity: three PLMN octets (TS 24.008 10.5.1.13) and a three-octet TAC -/
structure TaiOctets where
  plmn : Bytes
  tac  : Bytes
deriving DecidableEq, Repr

def takeTacs : Nat → Bytes → Bytes → Option (List TaiOctets)
  | 0, _, [] => some []
  | 0, _, _ :: _ => none
  | n + 1, plmn, a :: b :: c :: r => (takeTacs n plmn r).map (⟨plmn, [a, b, c]⟩ :: ·)
  | _ + 1, _, _ => none

def takeTais : Nat → Bytes → Option (List TaiOctets)
  | 0, [] => some []
  | 0, _ :: _ => none
  | n + 1, p :: q :: s :: a :: b :: c :: r => (takeTais n r).map (⟨[p, q, s], [a, b, c]⟩ :: ·)
  | _ + 1, _ => none

/-- one partial tracking area identity list (9.11.3.9, Figures 9.11.3.9.2 / .4): octet 1 = 0 | type of list (bits 7..6) |
number of elements (bits 5..1, coded as number − 1); type 00: one PLMN, then the TACs; type 10: (PLMN, TAC) per element -/
def decTaiList : Bytes → Option (List TaiOctets)
  | [] => none
  | h :: r =>
    let n := (h &&& 0x1f).toNat + 1
    if h >>> 7 ≠ 0 then none
    else if (h >>> 5) &&& 3 = 0 then
      match r with
      | p :: q :: s :: r' => takeTacs n [p, q, s] r'
      | _ => none
    else if (h >>> 5) &&& 3 = 2 then takeTais n r
    else none

/-- one partial service area list of type 00 (9.11.3.49): octet 1 = allowed type (bit 8) | type of list (bits 7..6) |
number of elements − 1; then one PLMN and the TACs. Result: (allowed type bit, elements) -/
def decServiceArea : Bytes → Option (Bool × List TaiOctets)
  | h :: p :: q :: s :: r =>
    if (h >>> 5) &&& 3 = 0 then (takeTacs ((h &&& 0x1f).toNat + 1) [p, q, s] r).map (fun l => (h >>> 7 = 1, l)) else none
  | _ => none

/-- LADN indication contents (9.11.3.29): a sequence of (length, DNN value) filling the contents exactly -/
def decLadnInd : Nat → Bytes → Option (List Bytes)
  | _, [] => some []
  | 0, _ :: _ => none
  | fuel + 1, l :: r => if l.toNat ≤ r.length then (decLadnInd fuel (r.drop l.toNat)).map (r.take l.toNat :: ·) else none

/-- one LADN of the LADN information element (9.11.3.30): length of DNN, DNN, then a 5GS tracking area identity list
element (length, contents) -/
def decLadn : Bytes → Option (Bytes × List TaiOctets)
  | [] => none
  | l :: r =>
    if l.toNat + 1 ≤ r.length then
      match r.drop l.toNat with
      | tl :: t => if tl.toNat = t.length then (decTaiList t).map (fun x => (r.take l.toNat, x)) else none
      | [] => none
    else none

end NasVerif.Spec.Lists
