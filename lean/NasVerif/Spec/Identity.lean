import NasVerif.Prelude.GoLib
/-!
# Identities on the wire and as text — written from TS 24.501 9.11.3.4, TS 24.008 10.5.1.13, TS 23.003

Independent of the Go code: octet layouts from the figures, text formats from TS 23.003 / TS 29.571 patterns.
Digits and nibbles are natural numbers (`d < 10`, `n < 16`).
-/
namespace NasVerif.Spec.Identity
open NasVerif

/-- the octet with high nibble `hi` (bits 8..5) and low nibble `lo` (bits 4..1) -/
def oct (hi lo : Nat) : UInt8 := UInt8.ofNat (hi * 16 + lo)

/-- ASCII of a decimal digit -/
def digitChar (d : Nat) : UInt8 := UInt8.ofNat (48 + d)

/-- ASCII (lower case) of a hexadecimal digit -/
def hexDigitChar (n : Nat) : UInt8 := if n < 10 then UInt8.ofNat (48 + n) else UInt8.ofNat (87 + n)

/-- a PLMN identity: three MCC digits, two or three MNC digits (`mnc3 = none` for a two-digit MNC) -/
structure Plmn where
  mcc1 : Nat
  mcc2 : Nat
  mcc3 : Nat
  mnc1 : Nat
  mnc2 : Nat
  mnc3 : Option Nat
deriving DecidableEq, Repr

def Plmn.Valid (p : Plmn) : Prop :=
  p.mcc1 < 10 ∧ p.mcc2 < 10 ∧ p.mcc3 < 10 ∧ p.mnc1 < 10 ∧ p.mnc2 < 10 ∧ (∀ d, p.mnc3 = some d → d < 10)

/-- TS 24.008 10.5.1.13 (used by every PLMN field of TS 24.501): octet 1 = MCC digit 2 | MCC digit 1,
octet 2 = MNC digit 3 | MCC digit 3 (MNC digit 3 = 1111 for a two-digit MNC), octet 3 = MNC digit 2 | MNC digit 1 -/
def Plmn.octets (p : Plmn) : Bytes :=
  [oct p.mcc2 p.mcc1, oct (p.mnc3.getD 15) p.mcc3, oct p.mnc2 p.mnc1]

def Plmn.mccText (p : Plmn) : Bytes := [digitChar p.mcc1, digitChar p.mcc2, digitChar p.mcc3]
def Plmn.mncText (p : Plmn) : Bytes :=
  [digitChar p.mnc1, digitChar p.mnc2] ++ (match p.mnc3 with | some d => [digitChar d] | none => [])
/-- MCC followed by MNC (5 or 6 digits) -/
def Plmn.text (p : Plmn) : Bytes := p.mccText ++ p.mncText

/-- AMF identifier (TS 23.003 2.10.1): region 8 bits, set 10 bits, pointer 6 bits, as three octets -/
def amfOctets (region set ptr : Nat) : Bytes :=
  [UInt8.ofNat region, UInt8.ofNat (set / 4), UInt8.ofNat ((set % 4) * 64 + ptr)]

/-- lower-case hexadecimal text of an octet string, two characters per octet, high nibble first -/
def hexText : Bytes → Bytes
  | [] => []
  | b :: r => hexDigitChar (b.toNat / 16) :: hexDigitChar (b.toNat % 16) :: hexText r

/-- 5G-GUTI mobile identity contents (Figure 9.11.3.4.1): 1111|0|010, PLMN, AMF region, AMF set (10) | pointer (6),
5G-TMSI (4 octets) -/
def gutiOctets (p : Plmn) (amf tmsi : Bytes) : Bytes := 0xf2 :: (p.octets ++ amf ++ tmsi)

/-- 5G-GUTI text (TS 29.571 pattern without the "5g-guti-" prefix): MCC MNC AMF-id(6 hex) TMSI(8 hex) -/
def gutiText (p : Plmn) (amf tmsi : Bytes) : Bytes := p.text ++ hexText amf ++ hexText tmsi

/-- BCD digit string packed two per octet, first digit in the low nibble, filler 1111 when the count is odd -/
def bcdPack : List Nat → Bytes
  | [] => []
  | [a] => [oct 15 a]
  | a :: b :: r => oct b a :: bcdPack r

def digitsText (ds : List Nat) : Bytes := ds.map digitChar

/-- IMEI / IMEISV contents (Figure 9.11.3.4.x): octet 1 = digit 1 | odd/even | type, then digits p+1 | p -/
def peiOctets (typ : Nat) (d1 : Nat) (rest : List Nat) : Bytes :=
  oct d1 ((if rest.length % 2 = 0 then 8 else 0) + typ) :: bcdPack rest

/-- SUCI, SUPI format IMSI (Figure 9.11.3.4.3): 0|000|0|001, PLMN, routing indicator (1..4 digits, filler 1111),
protection scheme, home network public key identifier, scheme output -/
def suciOctets (p : Plmn) (ri : List Nat) (scheme hnpk : Nat) (out : Bytes) : Bytes :=
  0x01 :: (p.octets ++ (bcdPack ri ++ List.replicate (2 - (ri.length + 1) / 2) 0xff) ++ [UInt8.ofNat scheme, UInt8.ofNat hnpk] ++ out)

def dashB : Bytes := [45]

/-- "suci-0-<mcc>-<mnc>-<routing indicator>-<scheme>-<key id>-<scheme output>" (TS 23.003 2.2B / TS 29.571) -/
def suciText (p : Plmn) (ri : List Nat) (schemeTxt hnpkTxt outTxt : Bytes) : Bytes :=
  ascii "suci-0-" ++ p.mccText ++ dashB ++ p.mncText ++ dashB ++ digitsText ri ++ dashB ++ schemeTxt ++ dashB ++ hnpkTxt ++ dashB ++ outTxt

end NasVerif.Spec.Identity
