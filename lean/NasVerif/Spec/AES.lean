import NasVerif.Prelude.Basic
/-!
# AES-128 (FIPS-197), CTR mode (SP 800-38A) and CMAC (SP 800-38B / RFC 4493), executable specifications

The S-box is computed from its definition (multiplicative inverse in GF(2^8) mod x^8+x^4+x^3+x+1, then the affine map).
`ctr` and `cmac` are parametrised by the block cipher so that theorems about EEA2/EIA2 hold for every `E`.
-/
namespace NasVerif.Spec.AES
open NasVerif

def xtime (b : UInt8) : UInt8 := if b &&& 0x80 != 0 then (b <<< 1) ^^^ 0x1b else b <<< 1

def gmul (a b : UInt8) : UInt8 := Id.run do
  let mut p : UInt8 := 0
  let mut x := a
  let mut y := b
  for _ in [0:8] do
    if y &&& 1 != 0 then p := p ^^^ x
    x := xtime x
    y := y >>> 1
  return p

/-- a^254 = a^{-1} in GF(2^8) (0 ↦ 0) -/
def ginv (a : UInt8) : UInt8 := Id.run do
  let mut r : UInt8 := 1
  let mut base := a
  let mut e : Nat := 254
  for _ in [0:8] do
    if e % 2 == 1 then r := gmul r base
    base := gmul base base
    e := e / 2
  return r

def rotl8 (x : UInt8) (n : Nat) : UInt8 := (x <<< UInt8.ofNat n) ||| (x >>> UInt8.ofNat (8 - n))

def sboxDef (x : UInt8) : UInt8 :=
  let b := ginv x
  b ^^^ rotl8 b 1 ^^^ rotl8 b 2 ^^^ rotl8 b 3 ^^^ rotl8 b 4 ^^^ 0x63

def sboxTab : Array UInt8 := Array.ofFn (n := 256) (fun i => sboxDef (UInt8.ofNat i.val))
def sbox (x : UInt8) : UInt8 := sboxTab.getD x.toNat 0

abbrev Block := List UInt8   -- 16 octets

def subWord (w : List UInt8) : List UInt8 := w.map sbox
def rotWord : List UInt8 → List UInt8
  | a :: r => r ++ [a]
  | [] => []
def xorB (a b : List UInt8) : List UInt8 := List.zipWith (· ^^^ ·) a b

def rcon : List UInt8 := [0x01, 0x02, 0x04, 0x08, 0x10, 0x20, 0x40, 0x80, 0x1b, 0x36]

/-- key expansion: 44 words (each a 4-octet list) -/
def expandKey (key : List UInt8) : List (List UInt8) := Id.run do
  let mut w : Array (List UInt8) := #[key.take 4, (key.drop 4).take 4, (key.drop 8).take 4, (key.drop 12).take 4]
  for i in [4:44] do
    let mut t := w[i-1]!
    if i % 4 == 0 then
      t := xorB (subWord (rotWord t)) [rcon.getD (i/4 - 1) 0, 0, 0, 0]
    w := w.push (xorB w[i-4]! t)
  return w.toList

def roundKey (w : List (List UInt8)) (r : Nat) : Block := ((w.drop (4*r)).take 4).flatten

def shiftRows (s : Block) : Block :=
  -- state is column-major: s[r + 4c]
  (List.range 16).map (fun i => let r := i % 4; let c := i / 4; s.getD (r + 4 * ((c + r) % 4)) 0)

def mixColumn (c : List UInt8) : List UInt8 :=
  match c with
  | [a0, a1, a2, a3] =>
    [gmul 2 a0 ^^^ gmul 3 a1 ^^^ a2 ^^^ a3, a0 ^^^ gmul 2 a1 ^^^ gmul 3 a2 ^^^ a3,
     a0 ^^^ a1 ^^^ gmul 2 a2 ^^^ gmul 3 a3, gmul 3 a0 ^^^ a1 ^^^ a2 ^^^ gmul 2 a3]
  | _ => c

def mixColumns (s : Block) : Block :=
  (List.range 4).flatMap (fun c => mixColumn ((s.drop (4*c)).take 4))

def encryptBlock (key : List UInt8) (inp : Block) : Block := Id.run do
  let w := expandKey key
  let mut s := xorB inp (roundKey w 0)
  for r in [1:10] do
    s := xorB (mixColumns (shiftRows (s.map sbox))) (roundKey w r)
  return xorB (shiftRows (s.map sbox)) (roundKey w 10)

/-! ## CTR (SP 800-38A): counter block incremented as a 128-bit big-endian integer (what Go's `cipher.NewCTR` does) -/

def incBE : List UInt8 → List UInt8 := fun b =>
  let rec go : List UInt8 → List UInt8 × Bool    -- on the reversed list
    | [] => ([], true)
    | x :: r => if x == 255 then let (r', c) := go r; (0 :: r', c) else ((x + 1) :: r, false)
  (go b.reverse).1.reverse

def ctrStream (E : Block → Block) : Nat → Block → List UInt8
  | 0, _ => []
  | n+1, ctr => E ctr ++ ctrStream E n (incBE ctr)

def ctr (E : Block → Block) (iv : Block) (inp : List UInt8) : List UInt8 :=
  xorB inp ((ctrStream E ((inp.length + 15) / 16) iv).take inp.length)

/-! ## CMAC (RFC 4493) -/

def shl1 (b : List UInt8) : List UInt8 :=
  let rec go : List UInt8 → List UInt8 × UInt8   -- from the right; returns carry
    | [] => ([], 0)
    | x :: r => let (r', c) := go r; (((x <<< 1) ||| c) :: r', x >>> 7)
  (go b).1

def subkey (l : Block) : Block :=
  let s := shl1 l
  if l.headD 0 &&& 0x80 != 0 then s.take 15 ++ [s.getD 15 0 ^^^ 0x87] else s

def cmacLoop (E : Block → Block) : List UInt8 → Block → Block → Block → Block
  | m, x, k1, k2 =>
    if h : m.length ≤ 16 then
      let last := if m.length = 16 then xorB m k1 else xorB (m ++ [0x80] ++ List.replicate (15 - m.length) 0) k2
      E (xorB x last)
    else
      cmacLoop E (m.drop 16) (E (xorB x (m.take 16))) k1 k2
termination_by m _ _ _ => m.length
decreasing_by simp; omega

def cmac (E : Block → Block) (m : List UInt8) : Block :=
  let l := E (List.replicate 16 0)
  let k1 := subkey l
  let k2 := subkey k1
  cmacLoop E m (List.replicate 16 0) k1 k2

end NasVerif.Spec.AES
