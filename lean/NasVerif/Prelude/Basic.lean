/-!
# Go-semantics prelude: bytes, outcomes

`Outcome` distinguishes a returned Go `error` (`err`) from a run-time panic (`panic`).
Everything here is core-only (no Mathlib) so that `Driver` can be linked as a `lean_exe`.
-/
namespace NasVerif

abbrev Byte := UInt8
abbrev Bytes := List UInt8

/-- error classes the properties talk about (error *strings* are not modelled) -/
inductive Err
  | trunc      -- input ended inside an element (`io.EOF` / `io.ErrUnexpectedEOF` from `binary.Read`)
  | badLen     -- a declared length is outside the element's bounds
  | unknown    -- unknown discriminator / message type / identifier
  | empty      -- nil / empty input, or a message with no body
  | other
deriving DecidableEq, Repr, Inhabited

def Err.toString : Err → String
  | .trunc => "trunc" | .badLen => "badLen" | .unknown => "unknown" | .empty => "empty" | .other => "other"

inductive Outcome (α : Type) where
  | ok (a : α)
  | err (e : Err)
  | panic
deriving DecidableEq, Repr, Inhabited

namespace Outcome
@[inline] def bind {α β} (x : Outcome α) (f : α → Outcome β) : Outcome β :=
  match x with
  | ok a => f a
  | err e => err e
  | panic => panic
instance : Monad Outcome where
  pure := Outcome.ok
  bind := Outcome.bind

def isOk {α} : Outcome α → Bool | ok _ => true | _ => false
def isPanic {α} : Outcome α → Bool | panic => true | _ => false
def isErr {α} : Outcome α → Bool | err _ => true | _ => false

@[simp] theorem bind_ok {α β} (a : α) (f : α → Outcome β) : (Outcome.ok a >>= f) = f a := rfl
@[simp] theorem bind_err {α β} (e : Err) (f : α → Outcome β) : (Outcome.err e >>= f) = Outcome.err e := rfl
@[simp] theorem bind_panic {α β} (f : α → Outcome β) : ((Outcome.panic : Outcome α) >>= f) = Outcome.panic := rfl
end Outcome

/-! ## hex (driver I/O only) -/
def hexDigit (n : Nat) : Char :=
  if n < 10 then Char.ofNat (48 + n) else Char.ofNat (87 + n)

def byteToHex (b : UInt8) : String :=
  String.ofList [hexDigit (b.toNat / 16), hexDigit (b.toNat % 16)]

def bytesToHex (bs : Bytes) : String :=
  if bs.isEmpty then "-" else String.join (bs.map byteToHex)

def hexVal (c : Char) : Option Nat :=
  if '0' ≤ c ∧ c ≤ '9' then some (c.toNat - 48)
  else if 'a' ≤ c ∧ c ≤ 'f' then some (c.toNat - 87)
  else if 'A' ≤ c ∧ c ≤ 'F' then some (c.toNat - 55)
  else none

def hexToBytesAux : List Char → Bytes → Option Bytes
  | [], acc => some acc.reverse
  | [_], _ => none
  | a :: b :: rest, acc =>
    match hexVal a, hexVal b with
    | some x, some y => hexToBytesAux rest (UInt8.ofNat (x * 16 + y) :: acc)
    | _, _ => none

def hexToBytes (s : String) : Option Bytes :=
  if s == "-" then some [] else hexToBytesAux s.toList []

end NasVerif
