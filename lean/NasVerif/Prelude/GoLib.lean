import NasVerif.Prelude.Basic
/-!
# Go-semantics prelude, part 2: checked indexing/slicing and the few library functions the helpers use

Go strings are byte sequences: `len(s)` counts bytes and `s[i]` is a byte, so text is `Bytes` here too.
Modelled, not verified (trusted base; compared with the Go standard library by the `lib` self-test ops):
`encoding/hex` EncodeToString / DecodeString, `math/bits` RotateLeft8(·, 4), `strings` Index(·, one byte) / Join,
`fmt.Sprintf` "%x" / "%d" on a `uint8`, `strconv.Atoi` on a one-byte string, `strconv.FormatUint(·, 10)`.
-/
namespace NasVerif

/-- `bs[i]`: panics when `i` is out of range -/
def idx (bs : Bytes) (i : Nat) : Outcome UInt8 :=
  if i < bs.length then .ok (bs.getD i 0) else .panic

/-- `bs[lo:hi]` (for strings and for slices whose capacity equals their length): panics unless `lo ≤ hi ≤ len` -/
def slice (bs : Bytes) (lo hi : Nat) : Outcome Bytes :=
  if lo ≤ hi ∧ hi ≤ bs.length then .ok ((bs.take hi).drop lo) else .panic

/-- `bs[lo:]` -/
def sliceFrom (bs : Bytes) (lo : Nat) : Outcome Bytes :=
  if lo ≤ bs.length then .ok (bs.drop lo) else .panic

theorem idx_ok {bs : Bytes} {i : Nat} (h : i < bs.length) : idx bs i = .ok (bs.getD i 0) := by
  simp [idx, h]
theorem slice_ok {bs : Bytes} {lo hi : Nat} (h1 : lo ≤ hi) (h2 : hi ≤ bs.length) :
    slice bs lo hi = .ok ((bs.take hi).drop lo) := by
  simp [slice, h1, h2]
theorem sliceFrom_ok {bs : Bytes} {lo : Nat} (h : lo ≤ bs.length) : sliceFrom bs lo = .ok (bs.drop lo) := by
  simp [sliceFrom, h]

/-! ## text helpers -/

def ascii (s : String) : Bytes := s.toList.map (fun c => UInt8.ofNat c.toNat)

def hexChar (n : UInt8) : UInt8 := if n < 10 then 48 + n else 87 + n

/-- `hex.EncodeToString` (lower case) -/
def hexEnc : Bytes → Bytes
  | [] => []
  | b :: r => hexChar (b >>> 4) :: hexChar (b &&& 0x0f) :: hexEnc r

@[simp] theorem hexEnc_length (bs : Bytes) : (hexEnc bs).length = 2 * bs.length := by
  induction bs with
  | nil => rfl
  | cons b r ih => simp [hexEnc, ih]; omega

def hexNib (c : UInt8) : Option UInt8 :=
  if 48 ≤ c ∧ c ≤ 57 then some (c - 48)
  else if 97 ≤ c ∧ c ≤ 102 then some (c - 87)
  else if 65 ≤ c ∧ c ≤ 70 then some (c - 55)
  else none

/-- `hex.DecodeString`: `none` = error (odd length or a non-hex byte) -/
def hexDec : Bytes → Option Bytes
  | [] => some []
  | [_] => none
  | a :: b :: r =>
    match hexNib a, hexNib b, hexDec r with
    | some x, some y, some rest => some ((x <<< 4 ||| y) :: rest)
    | _, _, _ => none

/-- `bits.RotateLeft8(b, 4)` -/
def rotl4 (b : UInt8) : UInt8 := (b <<< 4) ||| (b >>> 4)

/-- `strings.Index(s, c)` for a one-byte needle -/
def indexByte : Bytes → UInt8 → Option Nat
  | [], _ => none
  | x :: r, c => if x = c then some 0 else (indexByte r c).map (· + 1)

theorem indexByte_le {s : Bytes} {c : UInt8} {i : Nat} (h : indexByte s c = some i) : i < s.length := by
  induction s generalizing i with
  | nil => simp [indexByte] at h
  | cons x r ih =>
    unfold indexByte at h
    split at h
    · cases h; simp
    · cases hr : indexByte r c with
      | none => simp [hr] at h
      | some j => simp [hr] at h; have := ih hr; simp; omega

/-- `strings.Join(parts, sep)` -/
def join : List Bytes → Bytes → Bytes
  | [], _ => []
  | [p], _ => p
  | p :: q :: r, sep => p ++ sep ++ join (q :: r) sep

/-- decimal digits of a natural number (`%d`, `strconv.FormatUint(·, 10)`, `strconv.Itoa` for n ≥ 0) -/
def fmtDec (n : Nat) : Bytes := ascii (toString n)

/-- `fmt.Sprintf("%x", b)` for a `uint8`: lower-case hex without leading zeros -/
def fmtHex8 (b : UInt8) : Bytes :=
  if b < 16 then [hexChar b] else [hexChar (b >>> 4), hexChar (b &&& 0x0f)]

/-- `strconv.Atoi(string(b))` for one byte `b` (`string(byte)` is the UTF-8 encoding of the code point `b`):
succeeds exactly on an ASCII digit -/
def atoi1 (b : UInt8) : Option UInt8 := if 48 ≤ b ∧ b ≤ 57 then some (b - 48) else none

end NasVerif
