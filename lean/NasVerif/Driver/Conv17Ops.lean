import NasVerif.Model.Conv17
/-! line-protocol ops for the C17 helpers -/
namespace NasVerif.Driver
open NasVerif NasVerif.Model.Conv17

def unescS (s : String) : List Char := if s == "-" then [] else (s.replace "~" " ").toList

def showO8 (o : Outcome UInt8) : String :=
  match o with | .ok v => s!"ok {v.toNat}" | .err _ => "err" | .panic => "panic"

/-- GetTimeZone for a fixed zone (no DST): sign, hours, minutes of the offset -/
def zoneText (off : Int) : List Char :=
  let a := off.natAbs
  ((if off < 0 then "-" else "+") ++ pad2 (a / 3600) ++ ":" ++ pad2 (a % 3600 / 60)).toList

def conv17Op (toks : List String) : Option String :=
  match toks with
  | ["t2", v] => v.toNat?.map (fun v => s!"ok {(gprsTimer2ToNas v).toNat}")
  | ["t3", v] => v.toNat?.map (fun v => s!"ok {(gprsTimer3ToNas v).toNat}")
  | ["ambr", u, d] =>
    some (match modelsToSessionAMBR (unescS u) (unescS d) with
      | .ok b => "ok " ++ bytesToHex b | .err _ => "err" | .panic => "panic")
  | ["tzenc", s] => some (showO8 (parseTimeZoneToNas (unescS s)))
  | ["tzdec", v] => v.toNat?.map (fun v => "ok " ++ decodeLocalTimeZone (UInt8.ofNat v))
  | ["dstenc", s] => some (showO8 (dstValue (unescS s)))
  | ["dstdec", v] => v.toNat?.map (fun v => let s := decodeDst (UInt8.ofNat (v % 4));  -- the IE field is 2 bits wide
      "ok " ++ (if s.isEmpty then "-" else s))
  | ["utc", y, mo, d, h, mi, s, off] => do
    let y ← y.toNat?; let mo ← mo.toNat?; let d ← d.toNat?; let h ← h.toNat?; let mi ← mi.toNat?; let s ← s.toNat?
    let off ← off.toInt?
    match parseTimeZoneToNas (zoneText off) with
    | .ok tz => pure ("ok " ++ bytesToHex [encField (y % 100), encField mo, encField d, encField h, encField mi, encField s, tz])
    | _ => pure "panic"
  | ["utc", y, mo, d, h, mi, s, off, _zone] => do
    -- the same instant given in a named zone (the harness shares one location object per name); the offset is what counts
    let y ← y.toNat?; let mo ← mo.toNat?; let d ← d.toNat?; let h ← h.toNat?; let mi ← mi.toNat?; let s ← s.toNat?
    let off ← off.toInt?
    match parseTimeZoneToNas (zoneText off) with
    | .ok tz => pure ("ok " ++ bytesToHex [encField (y % 100), encField mo, encField d, encField h, encField mi, encField s, tz])
    | _ => pure "panic"
  | ["nname", _, h] => do
    let b ← hexToBytes h
    let (ln, buf) := networkNameToNas b
    pure s!"ok {ln} {bytesToHex buf}"
  | _ => none

end NasVerif.Driver
