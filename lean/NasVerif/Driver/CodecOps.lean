import NasVerif.Codec.Dispatch
import NasVerif.Model.Nas
/-! line-protocol ops for the message codecs (driver side) -/
namespace NasVerif.Driver
open NasVerif NasVerif.Codec

abbrev top : Top := NasVerif.Model.top

def showIE (name : String) (v : IEVal) : String :=
  s!"{name}={v.iei.toNat}:{v.len}:{bytesToHex v.data}"

def showVal (e : MsgEntry) (m : MsgVal) : String :=
  let manNames := e.decNames.take e.dec.man.length
  let optNames := e.decNames.drop e.dec.man.length
  let a := (manNames.zip m.man).map (fun (n, v) => showIE n v)
  let b := (optNames.zip m.opt).filterMap (fun (n, ov) => ov.map (showIE n))
  let l := a ++ b
  if l.isEmpty then "-" else String.intercalate ";" l

def showOutcome {α} (f : α → String) : Outcome α → String
  | .ok a => "ok " ++ f a
  | .err e => "err " ++ e.toString
  | .panic => "panic"

def showFamily (fam : String) (f : Family) : String :=
  let bodies := f.bodies.map (fun (n, v) =>
    match findMsg top.msgs n with
    | some e => n ++ " " ++ showVal e v
    | none => n ++ " ?")
  s!"{fam} hdr={bytesToHex f.header} " ++ String.intercalate " | " bodies

def showNas (m : NasMsg) : String :=
  match m.gmm, m.gsm with
  | some f, none => showFamily "gmm" f
  | none, some f => showFamily "gsm" f
  | none, none => "none"
  | some f, some g => showFamily "gmm" f ++ " && " ++ showFamily "gsm" g

def parseInput (s : String) : Option (Option Bytes) :=
  if s == "nil" then some none else (hexToBytes s).map some

def parseIE (s : String) : Option (String × IEVal) :=
  match s.splitOn "=" with
  | [n, r] =>
    match r.splitOn ":" with
    | [i, l, h] =>
      match i.toNat?, l.toNat?, hexToBytes h with
      | some i, some l, some d => some (n, ⟨UInt8.ofNat i, l, d⟩)
      | _, _, _ => none
    | _ => none
  | _ => none

def parseFields (s : String) : Option (List (String × IEVal)) :=
  if s == "-" then some [] else (s.splitOn ";").mapM parseIE

def buildVal (e : MsgEntry) (fs : List (String × IEVal)) : Option MsgVal :=
  let manNames := e.decNames.take e.dec.man.length
  let optNames := e.decNames.drop e.dec.man.length
  match manNames.mapM (fun n => fs.lookup n) with
  | none => none
  | some man => some ⟨man, optNames.map (fun n => fs.lookup n)⟩

def decEntry (entry : String) (inp : Option Bytes) : String :=
  if entry == "plain" then showOutcome showNas (plainDecode top inp)
  else match inp with
    | none => "panic"   -- GmmMessageDecode(nil) dereferences the nil pointer
    | some bs =>
      if entry == "gmm" then showOutcome (showFamily "gmm") (famDecode top.msgs top.gmm bs)
      else if entry == "gsm" then showOutcome (showFamily "gsm") (famDecode top.msgs top.gsm bs)
      else match findMsg top.msgs entry with
        | some e => showOutcome (fun v => entry ++ " " ++ showVal e v) (decode e.dec bs)
        | none => "bad-op"

/-- `enc <fam|msg> hdr=<hex> <Msg> <fields>` -/
def encOp (fam : String) (hdr : Bytes) (name : String) (fs : List (String × IEVal)) : String :=
  match findMsg top.msgs name with
  | none => "bad-op"
  | some e =>
    match buildVal e fs with
    | none => "bad-op"
    | some v =>
      if fam == "gmm" then showOutcome bytesToHex (plainEncode top ⟨some ⟨hdr, [(name, v)]⟩, none⟩)
      else if fam == "gsm" then showOutcome bytesToHex (plainEncode top ⟨none, some ⟨hdr, [(name, v)]⟩⟩)
      else showOutcome bytesToHex (encode e.dec v)

/-- dec ; enc ; dec ; enc on one input through the plain entry points -/
def rt4 (inp : Bytes) : String :=
  match plainDecode top (some inp) with
  | .ok m1 =>
    match plainEncode top m1 with
    | .ok b1 =>
      match plainDecode top (some b1) with
      | .ok m2 =>
        match plainEncode top m2 with
        | .ok b2 => s!"ok {bytesToHex b1} {bytesToHex b2} same={m1 == m2}"
        | o => "enc2 " ++ showOutcome bytesToHex o
      | o => "dec2 " ++ showOutcome showNas o
    | o => "enc1 " ++ showOutcome bytesToHex o
  | o => "dec1 " ++ showOutcome showNas o

def codecOp (toks : List String) : Option String :=
  match toks with
  | ["dec", entry, h] => (parseInput h).map (decEntry entry)
  | ["dec2", entry, ha, hb] =>
    -- decode A then B into the same Message, same family: each family decoder starts from a fresh family struct, so the
    -- outcome is that of decoding B alone (cross-family pairs are not an op: the other family's pointer is left as it was)
    match hexToBytes ha, hexToBytes hb with
    | some a, some b =>
      if (findMsg top.msgs entry).isSome then some (decEntry entry (some b))
      else if entry != "plain" && entry != "gmm" && entry != "gsm" then none
      else if entry == "plain" && (a.isEmpty || b.isEmpty || a.head? != b.head?) then none
      else some (decEntry entry (some b))
    | _, _ => none
  | ["dec2x", ha, hb] =>
    -- any two inputs through PlainNasDecode into one Message: the calls return (the model's decoders are total functions)
    match hexToBytes ha, hexToBytes hb with
    | some _, some _ => some "done"
    | _, _ => none
  | ["enc", fam, hdr, name, fields] =>
    if hdr.startsWith "hdr=" then
      match hexToBytes (hdr.drop 4).toString, parseFields fields with
      | some hb, some fs => some (encOp fam hb name fs)
      | _, _ => none
    else none
  | ["decsh", _sht, h] =>
    -- PlainNasDecode into a Message whose SecurityHeader is already filled in: the decoders do not look at it; the call returns
    (hexToBytes h).map fun _ => "done"
  | ["enc2", fam, hdr, name, fields, _staleName, _staleFields] =>
    -- a Message that still holds the body of an earlier message (a recycled object): the encoders dispatch on the header's message
    -- type, so the result is that of the named body alone (in the model a family holds at most the body the dispatch selects)
    if hdr.startsWith "hdr=" then
      match hexToBytes (hdr.drop 4).toString, parseFields fields with
      | some hb, some fs => some (encOp fam hb name fs)
      | _, _ => none
    else none
  | ["rt4", h] => (hexToBytes h).map rt4
  | ["canon", h] => (hexToBytes h).map fun inp =>
      match plainDecode top (some inp) with
      | .ok m1 =>
        match plainEncode top m1 with
        | .ok b1 => "ok " ++ bytesToHex b1
        | o => "enc " ++ showOutcome bytesToHex o
      | o => "dec " ++ showOutcome showNas o
  | ["encnone"] => some (showOutcome bytesToHex (plainEncode top ⟨none, none⟩))
  | _ => none

end NasVerif.Driver
