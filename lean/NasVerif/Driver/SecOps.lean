import NasVerif.Model.Security
/-! line-protocol ops for the security models (driver side) -/
namespace NasVerif.Driver
open NasVerif NasVerif.Model

def hex32 (w : BitVec 32) : String :=
  let l := Nat.toDigits 16 w.toNat
  String.ofList (List.replicate (8 - l.length) '0' ++ l)

def showWords (ws : List (BitVec 32)) : String :=
  if ws.isEmpty then "-" else String.intercalate "," (ws.map hex32)

def aesE (key blk : Bytes) : Bytes := Spec.AES.encryptBlock key blk

def words4 (b : Bytes) : List (BitVec 32) := (List.range 4).map (fun i => Security.be32 b (4*i))

def showO (o : Outcome Bytes) : String :=
  match o with
  | .ok b => "ok " ++ bytesToHex b
  | .err _ => "err other"
  | .panic => "panic"

def parsePayload (s : String) : Option (Option Bytes) :=
  if s == "nil" then some none else (hexToBytes s).map some

def u8 (n : Nat) : UInt8 := UInt8.ofNat n

def secOp (toks : List String) : Option String :=
  match toks with
  | ["ks", which, k, iv, n] => do
    let k ← hexToBytes k; let iv ← hexToBytes iv; let n ← n.toNat?
    if which == "snow" then pure ("ok " ++ showWords (Snow3g.GetKeyStream (words4 k) (words4 iv) n))
    else if which == "zuc" then pure ("ok " ++ showWords (Zuc.Zuc (Security.toBV8 k) (Security.toBV8 iv) n))
    else none
  | ["nea", alg, key, count, bearer, dir, data, bl] => do
    let key ← hexToBytes key; let count ← count.toNat?; let bearer ← bearer.toNat?; let dir ← dir.toNat?
    let data ← hexToBytes data; let bl ← bl.toNat?
    let c := BitVec.ofNat 32 count
    if alg == "1" then pure (showO (Security.NEA1 key c (BitVec.ofNat 32 bearer) (BitVec.ofNat 32 dir) data bl))
    else if alg == "2" then pure (showO (Security.NEA2 aesE key c (u8 bearer) (u8 dir) data))
    else if alg == "3" then pure (showO (Security.NEA3 key c (u8 bearer) (u8 dir) data bl))
    else none
  | ["nia", alg, key, count, bearer, dir, data, bl] => do
    let key ← hexToBytes key; let count ← count.toNat?; let bearer ← bearer.toNat?; let dir ← dir.toNat?
    let data ← hexToBytes data; let bl ← bl.toNat?
    let c := BitVec.ofNat 32 count
    if alg == "1" then pure (showO (Security.NIA1 key c (u8 bearer) (BitVec.ofNat 32 dir) data bl))
    else if alg == "2" then pure (showO (Security.NIA2 aesE key c (u8 bearer) (u8 dir) data))
    else if alg == "3" then pure (showO (Security.NIA3 key c (u8 bearer) (u8 dir) data bl))
    else none
  | ["nasenc", alg, key, count, bearer, dir, data] => do
    let alg ← alg.toNat?; let key ← hexToBytes key; let count ← count.toNat?; let bearer ← bearer.toNat?; let dir ← dir.toNat?
    let p ← parsePayload data
    match Security.NASEncrypt aesE (u8 alg) key (BitVec.ofNat 32 count) (u8 bearer) (u8 dir) p with
    | .ok r => pure s!"ok err={r.err} {match r.payload with | none => "nil" | some b => bytesToHex b}"
    | _ => pure "panic"
  | ["nasmac", alg, key, count, bearer, dir, data] => do
    let alg ← alg.toNat?; let key ← hexToBytes key; let count ← count.toNat?; let bearer ← bearer.toNat?; let dir ← dir.toNat?
    let p ← parsePayload data
    match Security.NASMacCalculate aesE (u8 alg) key (BitVec.ofNat 32 count) (u8 bearer) (u8 dir) p with
    | .ok none => pure "ok err"
    | .ok (some m) => pure ("ok " ++ bytesToHex m)
    | _ => pure "panic"
  | "leaf" :: fn :: rest => do
    let v ← rest.mapM (·.toNat?)
    let b8 (i : Nat) : BitVec 8 := BitVec.ofNat 8 (v.getD i 0)
    let b32 (i : Nat) : BitVec 32 := BitVec.ofNat 32 (v.getD i 0)
    let b64 (i : Nat) : BitVec 64 := BitVec.ofNat 64 (v.getD i 0)
    match fn with
    | "snow.mulx" => pure s!"ok {(Snow3g.mulx (b8 0) (b8 1)).toNat}"
    | "snow.mulxPow" => pure s!"ok {(Snow3g.mulxPow (b8 0) (v.getD 1 0) (b8 2)).toNat}"
    | "snow.s1" => pure s!"ok {(Snow3g.s1 (b32 0)).toNat}"
    | "snow.s2" => pure s!"ok {(Snow3g.s2 (b32 0)).toNat}"
    | "snow.mulAlpha" => pure s!"ok {(Snow3g.mulAlpha (b8 0)).toNat}"
    | "snow.divAlpha" => pure s!"ok {(Snow3g.divAlpha (b8 0)).toNat}"
    | "zuc.l1" => pure s!"ok {(Zuc.l1 (b32 0)).toNat}"
    | "zuc.l2" => pure s!"ok {(Zuc.l2 (b32 0)).toNat}"
    | "zuc.lfsr" =>
      let st : Zuc.State := ⟨(List.range 16).map (fun i => b32 (2+i)), 0, 0⟩
      pure ("ok " ++ showWords (Zuc.lfsrState st (v.getD 0 0 == 1) (b32 1)).s)
    | "sec.mulx" => pure s!"ok {(Security.mulx (b64 0) (b64 1)).toNat}"
    | "sec.mulxPow" => pure s!"ok {(Security.mulxPow (b64 0) (v.getD 1 0) (b64 2)).toNat}"
    | "sec.mul" => pure s!"ok {(Security.mul (b64 0) (b64 1) (b64 2)).toNat}"
    | "sec.getWord" =>
      match Security.getWord ((v.drop 1).map (BitVec.ofNat 32)) (v.getD 0 0) with
      | .ok w => pure s!"ok {w.toNat}"
      | _ => pure "panic"
    | _ => none
  | _ => none

end NasVerif.Driver
