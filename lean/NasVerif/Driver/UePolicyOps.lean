import NasVerif.Model.UePolicy
import NasVerif.Model.UePolicyApi
import NasVerif.Driver.QosOps
/-! line-protocol ops `upc …` for the UE policy container model (C18).
sublists `len:plmnhex:mcc:mnc:instrs|…`, instrs `-` or `len/upsc/parts+…`, parts `-` or `len.typ.hex,…`;
sub-results `len:plmnhex:mcc:mnc:results|…`, results `-` or `upsc.order.cause,…`;
messages `cmd:pti:typ:iei:len:hex:cm` (cm `-` or `iei.len.nssui.spare`), `cpl:pti:typ`, `rej:pti:typ:iei:len:hex`, `other`. -/
namespace NasVerif.Driver
open NasVerif NasVerif.Model.UePolicy

def showPart (p : Part) : String := s!"{p.len.toNat}.{p.typ.toNat}.{hx p.content}"
def showInstr (i : Instr) : String := s!"{i.len.toNat}/{i.upsc.toNat}/{showList (i.parts.map showPart) ","}"
def showSubList (s : SubList) : String :=
  s!"{s.len.toNat}:{hx [s.p1, s.p2, s.p3]}:{s.mcc}:{s.mnc}:{showList (s.instrs.map showInstr) "+"}"
def showRes (r : Res) : String := s!"{r.upsc.toNat}.{r.order.toNat}.{r.cause.toNat}"
def showSubResult (s : SubResult) : String :=
  s!"{s.len.toNat}:{hx [s.p1, s.p2, s.p3]}:{s.mcc}:{s.mnc}:{showList (s.results.map showRes) ","}"

def parsePartsS (s : String) : Option (List Part) :=
  (splitList s ",").mapM fun e =>
    match e.splitOn "." with
    | [l, t, h] => do let l ← l.toNat?; let t ← t.toNat?; let b ← hexToBytes h; pure ⟨UInt16.ofNat l, UInt8.ofNat t, b⟩
    | _ => none

def parseInstrsS (s : String) : Option (List Instr) :=
  (splitList s "+").mapM fun e =>
    match e.splitOn "/" with
    | [l, u, ps] => do let l ← l.toNat?; let u ← u.toNat?; let ps ← parsePartsS ps; pure ⟨UInt16.ofNat l, UInt16.ofNat u, ps⟩
    | _ => none

def plmn3 (h : String) : Option (UInt8 × UInt8 × UInt8) :=
  match hexToBytes h with
  | some [a, b, c] => some (a, b, c)
  | _ => none

def parseSubListsS (s : String) : Option (List SubList) :=
  (splitList s "|").mapM fun e =>
    match e.splitOn ":" with
    | [l, p, mcc, mnc, is] => do
      let l ← l.toNat?; let (a, b, c) ← plmn3 p; let mcc ← mcc.toNat?; let mnc ← mnc.toNat?; let is ← parseInstrsS is
      pure ⟨UInt16.ofNat l, a, b, c, mcc, mnc, is⟩
    | _ => none

def parseResS (s : String) : Option (List Res) :=
  (splitList s ",").mapM fun e =>
    match e.splitOn "." with
    | [u, o, c] => do let u ← u.toNat?; let o ← o.toNat?; let c ← c.toNat?; pure ⟨UInt16.ofNat u, UInt16.ofNat o, UInt8.ofNat c⟩
    | _ => none

def parseSubResultsS (s : String) : Option (List SubResult) :=
  (splitList s "|").mapM fun e =>
    match e.splitOn ":" with
    | [l, p, mcc, mnc, rs] => do
      let l ← l.toNat?; let (a, b, c) ← plmn3 p; let mcc ← mcc.toNat?; let mnc ← mnc.toNat?; let rs ← parseResS rs
      pure ⟨UInt16.ofNat l, a, b, c, mcc, mnc, rs⟩
    | _ => none

def showMsg : Msg → String
  | .command pti typ iei len buf cm =>
    s!"cmd:{pti.toNat}:{typ.toNat}:{iei.toNat}:{len.toNat}:{hx buf}:" ++
      (match cm with | some c => s!"{c.iei.toNat}.{c.len.toNat}.{c.nssui.toNat}.{c.spare.toNat}" | none => "-")
  | .complete pti typ => s!"cpl:{pti.toNat}:{typ.toNat}"
  | .reject pti typ iei len buf => s!"rej:{pti.toNat}:{typ.toNat}:{iei.toNat}:{len.toNat}:{hx buf}"
  | .other => "other"

def parseMsgS (s : String) : Option Msg :=
  match s.splitOn ":" with
  | ["cmd", pti, typ, iei, len, h, cm] => do
    let pti ← pti.toNat?; let typ ← typ.toNat?; let iei ← iei.toNat?; let len ← len.toNat?; let b ← hexToBytes h
    let cm ← (if cm == "-" then some none else
      match cm.splitOn "." with
      | [a, b, c, d] => do let a ← a.toNat?; let b ← b.toNat?; let c ← c.toNat?; let d ← d.toNat?
                            pure (some ⟨UInt8.ofNat a, UInt8.ofNat b, UInt8.ofNat c, UInt8.ofNat d⟩)
      | _ => none)
    pure (.command (UInt8.ofNat pti) (UInt8.ofNat typ) (UInt8.ofNat iei) (UInt16.ofNat len) b cm)
  | ["cpl", pti, typ] => do let pti ← pti.toNat?; let typ ← typ.toNat?; pure (.complete (UInt8.ofNat pti) (UInt8.ofNat typ))
  | ["rej", pti, typ, iei, len, h] => do
    let pti ← pti.toNat?; let typ ← typ.toNat?; let iei ← iei.toNat?; let len ← len.toNat?; let b ← hexToBytes h
    pure (.reject (UInt8.ofNat pti) (UInt8.ofNat typ) (UInt8.ofNat iei) (UInt16.ofNat len) b)
  | ["other"] => some .other
  | _ => none

/-! descriptions for the API scripts (`upc apil|apir|apim`): sublists `len:mcc:mnc:instrs|…`, instrs `len/upsc/parts+…`,
parts `len.bycontent.typ.hex,…`; sub-results `len:mcc:mnc:results|…`, results `upsc.order,…` -/
def parsePartsD (s : String) : Option (List PartD) :=
  (splitList s ",").mapM fun e =>
    match e.splitOn "." with
    | [l, bc, t, h] => do
      let l ← l.toNat?; let bc ← bc.toNat?; let t ← t.toNat?; let b ← hexToBytes h
      pure ⟨UInt16.ofNat l, bc != 0, UInt8.ofNat t, b⟩
    | _ => none

def parseInstrsD (s : String) : Option (List InstrD) :=
  (splitList s "+").mapM fun e =>
    match e.splitOn "/" with
    | [l, u, ps] => do let l ← l.toNat?; let u ← u.toNat?; let ps ← parsePartsD ps; pure ⟨UInt16.ofNat l, UInt16.ofNat u, ps⟩
    | _ => none

def parseSubListsD (s : String) : Option (List SubListD) :=
  (splitList s "|").mapM fun e =>
    match e.splitOn ":" with
    | [l, mcc, mnc, is] => do
      let l ← l.toNat?; let mcc ← mcc.toNat?; let mnc ← mnc.toNat?; let is ← parseInstrsD is
      pure ⟨UInt16.ofNat l, mcc, mnc, is⟩
    | _ => none

def parseSubResultsD (s : String) : Option (List SubResultD) :=
  (splitList s "|").mapM fun e =>
    match e.splitOn ":" with
    | [l, mcc, mnc, rs] => do
      let l ← l.toNat?; let mcc ← mcc.toNat?; let mnc ← mnc.toNat?
      let rs ← (splitList rs ",").mapM fun r =>
        match r.splitOn "." with
        | [u, o] => do let u ← u.toNat?; let o ← o.toNat?; pure (UInt16.ofNat u, UInt16.ofNat o)
        | _ => none
      pure ⟨UInt16.ofNat l, mcc, mnc, rs⟩
    | _ => none

def showDec {α} (o : Outcome α) (f : α → String) : String :=
  match o with
  | .ok a => f a
  | .err _ => "err"
  | .panic => "panic"

def upcOp (toks : List String) : Option String :=
  match toks with
  | ["upc", "apil", d] => do
    let ds ← parseSubListsD d
    pure (showOut (buildList ds []) fun l =>
      let b := marshalList l
      s!"{showList (l.map showSubList) "|"} {hx b} {showDec (unmarshalList b) fun l' => showList (l'.map showSubList) "|"}")
  | ["upc", "apir", d] => do
    let ds ← parseSubResultsD d
    pure (showOut (buildResult ds []) fun l =>
      let b := marshalResult l
      s!"{showList (l.map showSubResult) "|"} {hx b} {showDec (unmarshalResult b) fun l' => showList (l'.map showSubResult) "|"}")
  | ["upc", "apim", "cmd", pti, iei, h, cm] => do
    let pti ← pti.toNat?; let iei ← iei.toNat?; let b ← hexToBytes h
    let cm ← (if cm == "-" then some none else
      match cm.splitOn "." with
      | [a, n] => do let a ← a.toNat?; let n ← n.toNat?; pure (some (UInt8.ofNat a, UInt8.ofNat n))
      | _ => none)
    pure (showOut (buildCommand (UInt8.ofNat pti) (UInt8.ofNat iei) b cm) fun (h1, m) =>
      showDec (encodeMsg h1 m) fun e => s!"{hx e} {showDec (decodeMsg e) fun (h0, h1, m') => s!"{h0.toNat} {h1.toNat} {showMsg m'}"}")
  | ["upc", "apim", "rej", pti, iei, h] => do
    let pti ← pti.toNat?; let iei ← iei.toNat?; let b ← hexToBytes h
    let (h1, m) := buildReject (UInt8.ofNat pti) (UInt8.ofNat iei) b
    pure ("ok " ++ showDec (encodeMsg h1 m) fun e => s!"{hx e} {showDec (decodeMsg e) fun (h0, h1, m') => s!"{h0.toNat} {h1.toNat} {showMsg m'}"}")
  | ["upc", "apim", "cpl", pti] => do
    let pti ← pti.toNat?
    let (h1, m) := buildComplete (UInt8.ofNat pti)
    pure ("ok " ++ showDec (encodeMsg h1 m) fun e => s!"{hx e} {showDec (decodeMsg e) fun (h0, h1, m') => s!"{h0.toNat} {h1.toNat} {showMsg m'}"}")
  | ["upc", "dec", h] => do
    let b ← hexToBytes h
    pure (showOut (decodeMsg b) fun (h0, h1, m) => s!"{h0.toNat} {h1.toNat} {showMsg m}")
  | ["upc", "dec2", ha, h] => do
    -- decode A, then B (same message type), into the same object: the sub-message is allocated afresh, so the result is B's
    let a ← hexToBytes ha
    let b ← hexToBytes h
    if a.length < 2 || b.length < 2 || a.getD 1 0 != b.getD 1 0 then none
    pure (showOut (decodeMsg b) fun (h0, h1, m) => s!"{h0.toNat} {h1.toNat} {showMsg m}")
  | ["upc", "enc", h1, m] => do
    let h1 ← h1.toNat?
    let m ← parseMsgS m
    pure (showOut (encodeMsg (UInt8.ofNat h1) m) hx)
  | ["upc", "unl", h] => do
    let b ← hexToBytes h
    pure (showOut (unmarshalList b) fun l => showList (l.map showSubList) "|")
  | ["upc", "mal", s] => do
    let l ← parseSubListsS s
    pure ("ok " ++ hx (marshalList l))
  | ["upc", "unr", h] => do
    let b ← hexToBytes h
    pure (showOut (unmarshalResult b) fun l => showList (l.map showSubResult) "|")
  | ["upc", "mar", s] => do
    let l ← parseSubResultsS s
    pure ("ok " ++ hx (marshalResult l))
  | ["upc", "plmn2", _, _m1, _n1, mcc, mnc] => do
    -- a second SetPlmnDigit on the same object: all three octets are assigned, so the result is that of the second call alone
    let mcc ← mcc.toNat?
    let mnc ← mnc.toNat?
    pure (showOut (setPlmnDigit mcc mnc) fun (a, b, c) => hx [a, b, c])
  | ["upc", "plmn", _, mcc, mnc] => do
    let mcc ← mcc.toNat?
    let mnc ← mnc.toNat?
    pure (showOut (setPlmnDigit mcc mnc) fun (a, b, c) => hx [a, b, c])
  | _ => none

end NasVerif.Driver
