import NasVerif.Spec.Tables
/-! spec-side line-protocol ops: the pinned TS 24.501 tables with the independent renderer / table-driven decoder.
Imports nothing regenerated, so this driver always builds. -/
namespace NasVerif.Driver
open NasVerif

def showSVal (name : String) (v : Spec.Val) : String := s!"{name}={v.iei.toNat}:{v.len}:{bytesToHex v.value}"

def parseSIE (s : String) : Option (String × Spec.Val) :=
  match s.splitOn "=" with
  | [n, r] =>
    match r.splitOn ":" with
    | [i, l, h] =>
      match i.toNat?, l.toNat?, hexToBytes h with
      | some i, some l, some d => some (n, ⟨UInt8.ofNat i, l, d⟩)
      | _, _, _ => none
    | _ => none
  | _ => none

def parseSFields (s : String) : Option (List (String × Spec.Val)) :=
  if s == "-" then some [] else (s.splitOn ";").mapM parseSIE

def specOp (toks : List String) : Option String :=
  match toks with
  | ["sdec", name, h] => do
    let m ← Spec.tables.lookup name
    let ns ← Spec.names.lookup name
    let bs ← hexToBytes h
    match Spec.decode m bs with
    | none => pure "err"
    | some v =>
      let a := (ns.take m.man.length |>.zip v.man).map (fun (n, x) => showSVal n x)
      let b := (ns.drop m.man.length |>.zip v.opt).filterMap (fun (n, x) => x.map (showSVal n))
      let l := a ++ b
      pure ("ok " ++ name ++ " " ++ (if l.isEmpty then "-" else String.intercalate ";" l))
  | ["senc", name, fields] => do
    let m ← Spec.tables.lookup name
    let ns ← Spec.names.lookup name
    let fs ← parseSFields fields
    let man ← (ns.take m.man.length).mapM (fun n => fs.lookup n)
    let opt := (ns.drop m.man.length).map (fun n => fs.lookup n)
    pure ("ok " ++ bytesToHex (Spec.render m ⟨man, opt⟩))
  | _ => none

end NasVerif.Driver
