import NasVerif.Spec.Tables
import NasVerif.Spec.EEA
/-! spec-side line-protocol ops: the pinned TS 24.501 tables with the independent renderer / table-driven decoder.
Imports nothing regenerated, so this driver always builds. -/
namespace NasVerif.Driver
open NasVerif

def showSVal (name : String) (v : Spec.Val) : String := s!"{name}={v.iei.toNat}:{v.len}:{bytesToHex v.value}"

def parseSIE (s : String) : Option (String × Spec.Val) :=
  match s.splitOn "=" with
  | [n, r] =>
    match r.splitOn ":" with
    | [i, l, h] =>
      match i.toNat?, l.toNat?, hexToBytes h with
      | some i, some l, some d => some (n, ⟨UInt8.ofNat i, l, d⟩)
      | _, _, _ => none
    | _ => none
  | _ => none

def parseSFields (s : String) : Option (List (String × Spec.Val)) :=
  if s == "-" then some [] else (s.splitOn ";").mapM parseSIE

def specOp (toks : List String) : Option String :=
  match toks with
  | ["sdec", name, h] => do
    let m ← Spec.tables.lookup name
    let ns ← Spec.names.lookup name
    let bs ← hexToBytes h
    match Spec.decode m bs with
    | none => pure "err"
    | some v =>
      let a := (ns.take m.man.length |>.zip v.man).map (fun (n, x) => showSVal n x)
      let b := (ns.drop m.man.length |>.zip v.opt).filterMap (fun (n, x) => x.map (showSVal n))
      let l := a ++ b
      pure ("ok " ++ name ++ " " ++ (if l.isEmpty then "-" else String.intercalate ";" l))
  | ["senc", name, fields] => do
    let m ← Spec.tables.lookup name
    let ns ← Spec.names.lookup name
    let fs ← parseSFields fields
    let man ← (ns.take m.man.length).mapM (fun n => fs.lookup n)
    let opt := (ns.drop m.man.length).map (fun n => fs.lookup n)
    pure ("ok " ++ bytesToHex (Spec.render m ⟨man, opt⟩))
  | "szuclfsr" :: init :: u :: cells => do
    -- one LFSR step by the definition over GF(2^31-1) (residue 0 represented by 2^31-1)
    let u ← u.toNat?
    let cs ← cells.mapM (·.toNat?)
    if cs.length ≠ 16 then none
    let st : Spec.ZUC.St := ⟨cs, 0, 0⟩
    let st' := Spec.ZUC.lfsrStep st (if init == "1" then u else 0)
    pure ("ok " ++ " ".intercalate (st'.s.map toString))
  | ["snea", alg, key, count, bearer, dir, data, bl] => do
    let key ← hexToBytes key; let count ← count.toNat?; let bearer ← bearer.toNat?; let dir ← dir.toNat?
    let data ← hexToBytes data; let bl ← bl.toNat?
    let ibs := (Spec.bytesBits data).take bl
    if ibs.length < bl then none
    let nb := (bl + 7) / 8
    if alg == "1" then pure ("ok " ++ bytesToHex (Spec.bitsToBytes nb (Spec.f8 key count bearer dir ibs)))
    else if alg == "2" then pure ("ok " ++ bytesToHex (Spec.eea2 (Spec.AES.encryptBlock key) count bearer dir data))
    else if alg == "3" then pure ("ok " ++ bytesToHex (Spec.bitsToBytes nb (Spec.eea3 key count bearer dir ibs)))
    else none
  | ["snasenc", alg, key, count, bearer, dir, data] => do
    -- the in-place API on valid arguments = the standard function at LENGTH = 8 * octets
    let key ← hexToBytes key; let count ← count.toNat?; let bearer ← bearer.toNat?; let dir ← dir.toNat?
    let data ← hexToBytes data
    let ibs := Spec.bytesBits data
    if alg == "1" then pure ("ok " ++ bytesToHex (Spec.bitsToBytes data.length (Spec.f8 key count bearer dir ibs)))
    else if alg == "2" then pure ("ok " ++ bytesToHex (Spec.eea2 (Spec.AES.encryptBlock key) count bearer dir data))
    else if alg == "3" then pure ("ok " ++ bytesToHex (Spec.bitsToBytes data.length (Spec.eea3 key count bearer dir ibs)))
    else none
  | ["snasmac", alg, key, count, bearer, dir, data] => do
    let key ← hexToBytes key; let count ← count.toNat?; let bearer ← bearer.toNat?; let dir ← dir.toNat?
    let data ← hexToBytes data
    let m := Spec.bytesBits data
    let showW (w : BitVec 32) : String := bytesToHex [UInt8.ofNat (w.toNat / 2^24), UInt8.ofNat (w.toNat / 2^16), UInt8.ofNat (w.toNat / 2^8), UInt8.ofNat w.toNat]
    if alg == "1" then pure ("ok " ++ showW (Spec.f9 key count bearer dir m))
    else if alg == "2" then pure ("ok " ++ bytesToHex (Spec.eia2 (Spec.AES.encryptBlock key) count bearer dir data))
    else if alg == "3" then pure ("ok " ++ showW (Spec.eia3 key count bearer dir m))
    else none
  | ["snia", alg, key, count, bearer, dir, data, bl] => do
    let key ← hexToBytes key; let count ← count.toNat?; let bearer ← bearer.toNat?; let dir ← dir.toNat?
    let data ← hexToBytes data; let bl ← bl.toNat?
    let m := (Spec.bytesBits data).take bl
    if m.length < bl then none
    let showW (w : BitVec 32) : String := bytesToHex [UInt8.ofNat (w.toNat / 2^24), UInt8.ofNat (w.toNat / 2^16), UInt8.ofNat (w.toNat / 2^8), UInt8.ofNat w.toNat]
    if alg == "1" then pure ("ok " ++ showW (Spec.f9 key count bearer dir m))
    else if alg == "2" then pure ("ok " ++ bytesToHex (Spec.eia2 (Spec.AES.encryptBlock key) count bearer dir data))
    else if alg == "3" then pure ("ok " ++ showW (Spec.eia3 key count bearer dir m))
    else none
  | _ => none

end NasVerif.Driver
