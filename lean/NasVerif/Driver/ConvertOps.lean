import NasVerif.Model.Convert
/-! line-protocol ops `conv <fn> …` for the C12/C13/C14 helper models. Texts and octets travel as hex (`-` = empty). -/
namespace NasVerif.Driver
open NasVerif NasVerif.Model.Convert

def showOut {α} (o : Outcome α) (f : α → String) : String :=
  match o with
  | .ok a => "ok " ++ f a
  | .err _ => "err"
  | .panic => "panic"

def hx := bytesToHex

def splitList (s : String) (sep : String) : List String := if s == "-" then [] else s.splitOn sep

def parseSnssaiList (s : String) : Option (List (UInt8 × Bytes)) :=
  (splitList s ",").mapM fun e =>
    match e.splitOn ":" with
    | [a, b] => do
      let sst ← a.toNat?
      let sd ← hexToBytes b
      pure (UInt8.ofNat sst, sd)
    | _ => none

def parseTaiList (s : String) : Option (List Tai) :=
  (splitList s ",").mapM fun e =>
    match e.splitOn ":" with
    | [a, b, c] => do
      let mcc ← hexToBytes a
      let mnc ← hexToBytes b
      let tac ← hexToBytes c
      pure { mcc := mcc, mnc := mnc, tac := tac }
    | _ => none

def showSnssai (s : Snssai) : String :=
  s!"{s.sst.toNat}/" ++ (match s.sd with | some d => hx (hexEnc d) | none => "-")

def showMapped (m : MappedSnssai) : String :=
  showSnssai m.serving ++ "|" ++ (match m.home with | some h => showSnssai h | none => "nil")

def showBits (l : List Bool) : String := String.ofList (l.map fun b => if b then '1' else '0')

def miGetter (g : String) (b : Bytes) : Option String :=
  match g with
  | "type" => some (showOut (miType b) fun t => hx t.text)
  | "mobid" => some (showOut (miMobileIdentity b) fun (s, t) => hx s ++ " " ++ hx t)
  | "suci" => some (showOut (miSUCI b) hx)
  | "plmn" => some (showOut (miPlmnID b) hx)
  | "mcc" => some (showOut (miMCC b) hx)
  | "mnc" => some (showOut (miMNC b) hx)
  | "guti" => some (showOut (mi5GGUTI b) hx)
  | "amfid" => some (showOut (miAmfID b) hx)
  | "region" => some (showOut (miAmfRegionID b) hx)
  | "setid" => some (showOut (miAmfSetID b) hx)
  | "ptr" => some (showOut (miAmfPointer b) hx)
  | "tmsi" => some (showOut (mi5GTMSI b) hx)
  | "imei" => some (showOut (miIMEI b) hx)
  | "imeisv" => some (showOut (miIMEISV b) hx)
  | "stmsi" => some (showOut (mi5GSTMSI b) hx)
  | _ => none

def convOp (toks : List String) : Option String :=
  match toks with
  | ["conv", "suci", h] => do
    let b ← hexToBytes h
    pure (showOut (suciToString b) fun (s, p) => hx s ++ " " ++ hx p)
  | ["conv", "nai", h] => do
    let b ← hexToBytes h
    pure (showOut (naiToString b) hx)
  | ["conv", "guti2s", h] => do
    let b ← hexToBytes h
    pure (showOut (gutiToString b) fun g => s!"{hx g.mcc} {hx g.mnc} {hx g.amfId} {hx g.guti}")
  | ["conv", "guti2n", h] => do
    let b ← hexToBytes h
    pure (showOut (gutiToNas b) hx)
  | ["conv", "pei", h] => do
    let b ← hexToBytes h
    pure (showOut (peiToString b) hx)
  | ["conv", "plmn2s", h] => do
    let b ← hexToBytes h
    pure (showOut (plmnIDToString b) hx)
  | ["conv", "plmn2n", a, b] => do
    let mcc ← hexToBytes a
    let mnc ← hexToBytes b
    pure (showOut (plmnIDToNas mcc mnc) hx)
  | ["conv", "amf2n", h] => do
    let b ← hexToBytes h
    pure (showOut (amfIdToNas b) fun (r, s, p) => s!"{r.toNat} {s.toNat} {p.toNat}")
  | ["conv", "amf2m", r, s, p] => do
    let r ← r.toNat?; let s ← s.toNat?; let p ← p.toNat?
    pure ("ok " ++ hx (amfIdToModels (UInt8.ofNat r) (UInt16.ofNat s) (UInt8.ofNat p)))
  | ["conv", "reqnssai", l, h] => do
    let l ← l.toNat?
    let b ← hexToBytes h
    pure (showOut (requestedNssaiToModels l b) fun ms => if ms.isEmpty then "-" else ",".intercalate (ms.map showMapped))
  | ["conv", "snssai2m", l, h] => do
    let l ← l.toNat?
    let b ← hexToBytes h
    pure ("ok " ++ showSnssai (snssaiIeToModels (UInt8.ofNat l) b))
  | ["conv", "snssai2n", sst, sd] => do
    let sst ← sst.toNat?
    let sd ← hexToBytes sd
    pure ("ok " ++ hx (snssaiToNas (UInt8.ofNat sst) sd))
  | ["conv", "rejsnssai", sst, sd, c] => do
    let sst ← sst.toNat?
    let sd ← hexToBytes sd
    let c ← c.toNat?
    pure ("ok " ++ hx (rejectedSnssaiToNas (UInt8.ofNat sst) sd (UInt8.ofNat c)))
  | ["conv", "rejnssai", a, b] => do
    let a ← parseSnssaiList a
    let b ← parseSnssaiList b
    let (len, buf) := rejectedNssaiToNas a b
    pure s!"ok {len} {hx buf}"
  | ["conv", "tailist", l] => do
    let l ← parseTaiList l
    pure (showOut (taiListToNas l) hx)
  | ["conv", "sarea", mcc, mnc, al, tacs] => do
    let mcc ← hexToBytes mcc
    let mnc ← hexToBytes mnc
    let tacs ← (splitList tacs ",").mapM hexToBytes
    pure (showOut (partialServiceAreaListToNas mcc mnc (al == "1") tacs) hx)
  | ["conv", "ladn2n", d, l] => do
    let d ← hexToBytes d
    let l ← parseTaiList l
    pure (showOut (ladnToNas d l) hx)
  | ["conv", "ladn2m", h] => do
    let b ← hexToBytes h
    pure (showOut (ladnToModels b) fun ds => if ds.isEmpty then "nil" else ",".intercalate (ds.map hx))
  | ["conv", "uesec", h] => do
    let b ← hexToBytes h
    pure (showOut (ueSecCapToByteArray b) fun (a, b, c, d) => s!"{a.toNat} {b.toNat} {c.toNat} {d.toNat}")
  | ["conv", "psi", h] => do
    let b ← hexToBytes h
    pure (showOut (psiToBooleanArray b) showBits)
  | ["conv", "upuack", h] => do
    let b ← hexToBytes h
    pure (showOut (upuAckToModels b) hx)
  | ["conv", "dnn", h] => do
    let b ← hexToBytes h
    pure (showOut (getDNN b) hx)
  | ["conv", "mi", g, h] => do
    let b ← hexToBytes h
    miGetter g b
  | _ => none

end NasVerif.Driver
