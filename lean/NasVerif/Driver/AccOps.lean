import NasVerif.Gen.Accessors
import NasVerif.Prelude.Basic
import NasVerif.Model.Convert
/-! line-protocol ops for IE field accessors (driver side): evaluates the expressions regenerated from nasType -/
namespace NasVerif.Driver
open NasVerif NasVerif.Acc

def findPair (t f : String) : Option Pair := Gen.Acc.pairs.find? (fun p => p.type == t && p.field == f)
def findRange (t f : String) : Option RangePair := Gen.Acc.ranges.find? (fun p => p.type == t && p.field == f)

def octsOf (c : Bytes) : Nat → Nat := fun i => (c.getD i 0).toNat

def accOp (toks : List String) : Option String :=
  match toks with
  | ["acc", t, f, ch, vs] => do
    let p ← findPair t f
    let c ← hexToBytes ch
    let v ← vs.toNat?
    let o := octsOf c
    let g0 := eval ⟨o, 0⟩ p.get
    let o' := execSet v p.set o
    let after : Bytes := (List.range c.length).map (fun i => UInt8.ofNat (o' i))
    let g1 := eval ⟨o', 0⟩ p.get
    pure s!"ok {g0} {bytesToHex after} {g1}"
  | ["accr", t, f, ch, vh] => do
    let p ← findRange t f
    let c ← hexToBytes ch
    let v ← hexToBytes vh
    let show' : Outcome Bytes → String := fun o => match o with | .ok b => bytesToHex b | .err _ => "err" | .panic => "panic"
    match p.kind with
    | .range =>
      match setRange c p.lo p.hi v with
      | .ok c' => pure s!"ok {show' (getRange c p.lo p.hi)} {bytesToHex c'} {show' (getRange c' p.lo p.hi)}"
      | _ => pure "panic"
    | .tail =>
      match setTail c p.lo v with
      | .ok c' => pure s!"ok {show' (getTail c p.lo)} {bytesToHex c'} {show' (getTail c' p.lo)}"
      | _ => pure "panic"
  | ["accra", t, f, ch, offs, ks] => do
    -- the setter's argument is a window of the element's own contents (`a.SetX(a.Buffer[off:off+k])`): Go's copy has memmove
    -- semantics, so the result is that of setting a private copy of that window
    let p ← findRange t f
    let c ← hexToBytes ch
    let off ← offs.toNat?
    let k ← ks.toNat?
    let v := (c.drop off).take k
    let show' : Outcome Bytes → String := fun o => match o with | .ok b => bytesToHex b | .err _ => "err" | .panic => "panic"
    match p.kind with
    | .range =>
      match setRange c p.lo p.hi v with
      | .ok c' => pure s!"ok {bytesToHex c'} {show' (getRange c' p.lo p.hi)}"
      | _ => pure "panic"
    | .tail =>
      match setTail c p.lo v with
      | .ok c' => pure s!"ok {bytesToHex c'} {show' (getTail c' p.lo)}"
      | _ => pure "panic"
  | ["accl", _t, ch, _iei, _len, newlen, newiei] => do
    -- SetLen / SetIei on an array-backed element: each stores its own field, the contents stay (the harness pads the contents
    -- to the array size; the driver echoes them as given, the harness-side op prints the whole array)
    let c ← hexToBytes ch
    let nl ← newlen.toNat?
    let ni ← newiei.toNat?
    pure s!"ok {bytesToHex c} {ni} {nl}"
  | ["accs", "DNN", oh, th] => do
    -- the text-valued pair: `SetDNN(text)` on an element holding `old`, then `GetDNN()`
    let old ← hexToBytes oh
    let t ← hexToBytes th
    let b := Model.Convert.setDNN old t
    let g := match Model.Convert.getDNN b with | .ok x => bytesToHex x | .err _ => "err" | .panic => "panic"
    pure s!"ok {bytesToHex b} {b.length % 256} {g}"
  | _ => none

end NasVerif.Driver
