import NasVerif.Model.IdGen
/-! line-protocol op for the ID allocator model -/
namespace NasVerif.Driver
open NasVerif.Model.IdGen

def parseIdOp (s : String) : Option Op :=
  match s.splitOn ":" with
  | ["a"] => some .alloc
  | ["r", a, b] => do pure (.allocIn (← a.toNat?) (← b.toNat?))
  | ["f", a] => a.toInt?.map .free
  | _ => none

def idgOp (toks : List String) : Option String :=
  match toks with
  | ["idg", mn, mx, ops] => do
    let mn ← mn.toInt?; let mx ← mx.toInt?
    if mn > mx then none
    let l ← (ops.splitOn ";").mapM parseIdOp
    let (_, res) := l.foldl (fun (st : Gen × List String) op =>
      let (g', r) := step st.1 op
      let s := match op, r with
        | .free _, _ => "-"
        | _, some id => toString id
        | _, none => "e"
      (g', s :: st.2)) (newGen mn mx, [])
    pure ("ok " ++ String.intercalate "," res.reverse)
  | _ => none

end NasVerif.Driver
