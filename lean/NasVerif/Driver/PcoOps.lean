import NasVerif.Model.Pco
/-! line-protocol ops for PSI bitmaps and protocol configuration options -/
namespace NasVerif.Driver
open NasVerif NasVerif.Model.Pco

def showBools (l : List Bool) : String := String.ofList (l.map (fun b => if b then '1' else '0'))

def parseUnit (s : String) : Option PcoUnit :=
  match s.splitOn ":" with
  | [i, l, c] => do pure ⟨← i.toNat?, ← l.toNat?, ← hexToBytes c⟩
  | _ => none

def showUnitsL (l : List PcoUnit) : String :=
  if l.isEmpty then "-" else String.intercalate ";" (l.map (fun u => s!"{u.id}:{u.len}:{bytesToHex u.contents}"))

def pcoOp (toks : List String) : Option String :=
  match toks with
  | ["psi2arr", h] => (hexToBytes h).map (fun b => "ok " ++ showBools (psiToBooleanArray b))
  | ["psi2buf", s] => if s.length = 16 then some ("ok " ++ bytesToHex (psiToBuf (s.toList.map (· == '1')))) else none
  | ["prr", a, b] => do
    let ids ← if a == "nil" then some none else (hexToBytes a).map some
    let c ← hexToBytes b
    pure ("ok " ++ bytesToHex (reactivationErrorCauseToBuf ids c))
  | ["pcomar", s] => do
    let l ← if s == "-" then some [] else (s.splitOn ";").mapM parseUnit
    pure ("ok " ++ bytesToHex (marshal l))
  | ["pcounm", h] => do
    let b ← hexToBytes h
    match unmarshal b with
    | .ok l => pure ("ok " ++ showUnitsL l)
    | .err _ => pure "err trunc"
    | .panic => pure "panic"
  | ["pcobuild", script] => do
    let calls ← (if script == "-" then some [] else (script.splitOn ",").mapM fun c =>
      match c.splitOn ":" with
      | ["d4r"] => some Build.dns4Req
      | ["d6r"] => some Build.dns6Req
      | ["ipa"] => some Build.ipAllocNas
      | ["d4", h] => (hexToBytes h).map Build.dns4
      | ["pc4", h] => (hexToBytes h).map Build.pcscf4
      | ["d6", h] => (hexToBytes h).map Build.dns6
      | ["mtu", n] => n.toNat?.map Build.mtu4
      | _ => none)
    let (us, oks) := build calls
    let mask := if oks.isEmpty then "-" else String.ofList (oks.map fun b => if b then '1' else '0')
    let b := marshal us
    let dec := match unmarshal b with | .ok l => showUnitsL l | .err _ => "err" | .panic => "panic"
    pure s!"ok {mask} {showUnitsL us} {bytesToHex b} {dec}"
  | _ => none

end NasVerif.Driver
