import NasVerif.Gen.Counter
/-! line-protocol ops for the NAS COUNT model (driver side); runs the definitions regenerated from counter.go -/
namespace NasVerif.Driver
open NasVerif.Gen

def cntStep (c : BitVec 32) (res : List String) (p : String) : Option (BitVec 32 × List String) :=
  match p.splitOn ":" with
  | ["set", o, s] =>
    match o.toNat?, s.toNat? with
    | some o, some s => if o < 65536 ∧ s < 256 then some ((Counter.Set c (BitVec.ofNat 16 o) (BitVec.ofNat 8 s)).1, res) else none
    | _, _ => none
  | ["sqn", s] => match s.toNat? with
    | some s => if s < 256 then some ((Counter.SetSQN c (BitVec.ofNat 8 s)).1, res) else none
    | none => none
  | ["ovf", o] => match o.toNat? with
    | some o => if o < 65536 then some ((Counter.SetOverflow c (BitVec.ofNat 16 o)).1, res) else none
    | none => none
  | ["inc"] => some ((Counter.AddOne c).1, res)
  | ["get"] => let r := Counter.Get c; some (r.1, toString r.2.toNat :: res)
  | ["rsqn"] => let r := Counter.SQN c; some (r.1, toString r.2.toNat :: res)
  | ["rovf"] => let r := Counter.Overflow c; some (r.1, toString r.2.toNat :: res)
  | _ => none

def cntRun (s : String) : Option String := do
  let (c, res) ← (s.splitOn ";").foldlM (fun (st : BitVec 32 × List String) p => cntStep st.1 st.2 p) (0#32, [])
  let r := Counter.Get c
  pure ("ok " ++ String.intercalate "," (toString r.2.toNat :: res).reverse)

def cntWalk (st n : Nat) : String := Id.run do
  let mut c := (Counter.Set 0#32 (BitVec.ofNat 16 (st / 256)) (BitVec.ofNat 8 (st % 256))).1
  let mut sum : Nat := 0
  for _ in [0:n] do
    c := (Counter.AddOne c).1
    let r := Counter.Get c
    c := r.1
    sum := (sum * 31 + r.2.toNat) % 1000000007
  return s!"ok {(Counter.Get c).2.toNat} {sum}"

def counterOp (toks : List String) : Option String :=
  match toks with
  | ["cnt", s] => cntRun s
  | ["cntwalk", a, b] =>
    match a.toNat?, b.toNat? with
    | some a, some b => if a < 2^24 then some (cntWalk a b) else none
    | _, _ => none
  | _ => none

end NasVerif.Driver
