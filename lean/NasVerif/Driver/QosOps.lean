import NasVerif.Model.Qos
import NasVerif.Driver.ConvertOps
/-! line-protocol ops `qfd unm|mar …`, `qr unm|mar …` for the QoS models (C15).
descs: `qfi:op:params|…`, params `-` or `id=hex;…`; rules: `id:op:dqr:prec:seg:qfi:pfs|…`, pfs `-` or `id/dir/comps+…`,
comps `-` or `type=hex,…` (hex = the component's fields in wire order; flow label as 4 octets). -/
namespace NasVerif.Driver
open NasVerif NasVerif.Model.Qos

def u16Of (a b : UInt8) : UInt16 := (a.toUInt16 <<< 8) ||| b.toUInt16
def u32Of (a b c d : UInt8) : UInt32 := (a.toUInt32 <<< 24) ||| (b.toUInt32 <<< 16) ||| (c.toUInt32 <<< 8) ||| d.toUInt32

def paramOf (id : Nat) (b : Bytes) : Option FlowParam :=
  match id, b with
  | 1, [v] => some (.fiveQI v)
  | 2, [u, h, l] => some (.gfbrUl u (u16Of h l))
  | 3, [u, h, l] => some (.gfbrDl u (u16Of h l))
  | 4, [u, h, l] => some (.mfbrUl u (u16Of h l))
  | 5, [u, h, l] => some (.mfbrDl u (u16Of h l))
  | 6, [h, l] => some (.avgWindow (u16Of h l))
  | 7, [v] => some (.ebi v)
  | _, _ => none

def showParam (p : FlowParam) : String := s!"{p.ident.toNat}={hx p.body}"

def parseParams (s : String) : Option (List FlowParam) :=
  (splitList s ";").mapM fun e =>
    match e.splitOn "=" with
    | [i, h] => do let i ← i.toNat?; let b ← hexToBytes h; paramOf i b
    | _ => none

def parseDescs (s : String) : Option (List FlowDesc) :=
  (splitList s "|").mapM fun e =>
    match e.splitOn ":" with
    | [q, o, ps] => do
      let q ← q.toNat?; let o ← o.toNat?; let ps ← parseParams ps
      pure ⟨UInt8.ofNat q, UInt8.ofNat o, ps⟩
    | _ => none

def showList (l : List String) (sep : String) : String := if l.isEmpty then "-" else sep.intercalate l

def showDesc (d : FlowDesc) : String := s!"{d.qfi.toNat}:{d.op.toNat}:{showList (d.params.map showParam) ";"}"

def compFields : Comp → Bytes
  | .matchAll => []
  | .ipv4Remote a m | .ipv4Local a m => a ++ m
  | .proto v => [v]
  | .localPort v | .remotePort v => be16 v
  | .localRange lo hi | .remoteRange lo hi => be16 lo ++ be16 hi
  | .spi v => be32 v
  | .tos c m => [c, m]
  | .flowLabel v => be32 v
  | .dstMac m | .srcMac m => m
  | .ctagVid v | .stagVid v | .etherType v => be16 v
  | .ctagPcp v | .stagPcp v => [v]

def compOf (t : Nat) (b : Bytes) : Option Comp :=
  match t, b with
  | 0x01, [] => some .matchAll
  | 0x10, _ => some (.ipv4Remote (b.take 4) (b.drop 4))
  | 0x11, _ => some (.ipv4Local (b.take 4) (b.drop 4))
  | 0x30, [v] => some (.proto v)
  | 0x40, [h, l] => some (.localPort (u16Of h l))
  | 0x41, [a, b, c, d] => some (.localRange (u16Of a b) (u16Of c d))
  | 0x50, [h, l] => some (.remotePort (u16Of h l))
  | 0x51, [a, b, c, d] => some (.remoteRange (u16Of a b) (u16Of c d))
  | 0x60, [a, b, c, d] => some (.spi (u32Of a b c d))
  | 0x70, [c, m] => some (.tos c m)
  | 0x80, [a, b, c, d] => some (.flowLabel (u32Of a b c d))
  | 0x81, _ => some (.dstMac b)
  | 0x82, _ => some (.srcMac b)
  | 0x83, [h, l] => some (.ctagVid (u16Of h l))
  | 0x84, [h, l] => some (.stagVid (u16Of h l))
  | 0x85, [v] => some (.ctagPcp v)
  | 0x86, [v] => some (.stagPcp v)
  | 0x87, [h, l] => some (.etherType (u16Of h l))
  | _, _ => none

def showComp (c : Comp) : String := s!"{c.type.toNat}={hx (compFields c)}"

def parseCompsS (s : String) : Option (List Comp) :=
  (splitList s ",").mapM fun e =>
    match e.splitOn "=" with
    | [t, h] => do let t ← t.toNat?; let b ← hexToBytes h; compOf t b
    | _ => none

def parsePfsS (s : String) : Option (List PacketFilter) :=
  (splitList s "+").mapM fun e =>
    match e.splitOn "/" with
    | [i, d, cs] => do let i ← i.toNat?; let d ← d.toNat?; let cs ← parseCompsS cs; pure ⟨UInt8.ofNat i, UInt8.ofNat d, cs⟩
    | _ => none

def parseRulesS (s : String) : Option (List Rule) :=
  (splitList s "|").mapM fun e =>
    match e.splitOn ":" with
    | [i, o, dq, pr, sg, q, pfs] => do
      let i ← i.toNat?; let o ← o.toNat?; let pr ← pr.toNat?; let q ← q.toNat?; let pfs ← parsePfsS pfs
      pure ⟨UInt8.ofNat i, UInt8.ofNat o, dq == "1", pfs, UInt8.ofNat pr, sg == "1", UInt8.ofNat q⟩
    | _ => none

def showPf (p : PacketFilter) : String := s!"{p.id.toNat}/{p.dir.toNat}/{showList (p.comps.map showComp) ","}"
def b01 (b : Bool) : String := if b then "1" else "0"
def showRule (r : Rule) : String :=
  s!"{r.id.toNat}:{r.op.toNat}:{b01 r.dqr}:{r.prec.toNat}:{b01 r.seg}:{r.qfi.toNat}:{showList (r.pfs.map showPf) "+"}"

def qosOp (toks : List String) : Option String :=
  match toks with
  | ["qfd", "unm2", hh] =>
    -- two inputs parsed into the same variable: the parser resets the list, the result is that of the second input
    match hh.splitOn "," with
    | [_, h] => (hexToBytes h).map fun b => showOut (unmarshalDescs b) fun l => showList (l.map showDesc) "|"
    | _ => none
  | ["qr", "unm2", hh] =>
    match hh.splitOn "," with
    | [_, h] => (hexToBytes h).map fun b => showOut (unmarshalRules b) fun l => showList (l.map showRule) "|"
    | _ => none
  | ["qfd", "unm", h] => do
    let b ← hexToBytes h
    pure (showOut (unmarshalDescs b) fun l => showList (l.map showDesc) "|")
  | ["qfd", "unk", h] => do
    let b ← hexToBytes h
    pure (showOut (unmarshalDescs b) fun l => showList (l.map showDesc) "|")
  | ["qr", "unk", h] => do
    let b ← hexToBytes h
    pure (showOut (unmarshalRules b) fun l => showList (l.map showRule) "|")
  | ["qfd", "mar", s] => do
    let l ← parseDescs s
    pure ("ok " ++ hx (marshalDescs l))
  | ["qr", "unm", h] => do
    let b ← hexToBytes h
    pure (showOut (unmarshalRules b) fun l => showList (l.map showRule) "|")
  | ["qr", "mar", s] => do
    let l ← parseRulesS s
    pure (showOut (marshalRules l) hx)
  | _ => none

end NasVerif.Driver
