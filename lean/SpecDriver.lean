import NasVerif.Driver.SpecOps
open NasVerif NasVerif.Driver

partial def loop (h : IO.FS.Stream) (out : IO.FS.Stream) : IO Unit := do
  let line ← h.getLine
  if line.isEmpty then return ()
  let toks := (line.trimAscii.toString.splitOn " ").filter (· ≠ "")
  out.putStrLn ((specOp toks).getD "bad-op")
  loop h out

def main : IO Unit := do loop (← IO.getStdin) (← IO.getStdout)
