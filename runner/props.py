"""Per-property configuration of ./check."""

TB_COMMON = [
    "Lean 4.33.0 kernel",
    "tools/extract (Go AST -> Lean data): each recognised statement means what its IR interpreter clause says; validated by the correspondence run",
    "tools/harness generators + canonicalisation (sampling; evidence for the tie, not a theorem)",
]
TB_CODEC = TB_COMMON + [
    "modelled, not verified: encoding/binary Read/Write on *uint8,*uint16,[]uint8,[n]uint8,*struct{} and bytes.Buffer (Codec/Defs.lean decBody/encBody)",
]

TB_CONV = [
    "hand-written Model/Convert.lean mirrors nasConvert/{MobileIdentity5GS,PlmnId,AmfId,Nssai,Snssai,TaiList,ServiceAreaList,Ladn,UESecurityCapability,PSI,UPUInfo}.go and the text getters of nasType/NAS_MobileIdentity5GS.go, NAS_DNN.go (every index/slice is a checked primitive, loops carry fuel whose exhaustion is a panic); tied by the correspondence run",
    "Prelude/GoLib.lean: encoding/hex, bits.RotateLeft8, strings.Index/Join, fmt %x/%d, strconv.Atoi on one byte modelled, not verified (exercised through every helper by the correspondence run)",
]

def c19_extra(prop, tier, seed, broken, failing, ev_cov, notes):
    """runtime half of C19: the real library from 64 goroutines under the race detector, results compared with the sequential run"""
    import core, time
    ok, out = core.build_race_harness()
    if not ok:
        broken.append({"what": "race-instrumented harness does not build", "detail": out[-2000:]})
        return
    seeds = [seed] if tier == "quick" else [seed, seed + 1, seed + 2, seed + 3]
    per = 700 if tier == "quick" else 4000
    total = 0
    for sd in seeds:
        t = time.time()
        okc, summary, detail, n, ops = core.run_conc(sd, per)
        total += n
        core.log(f"conc seed {sd}: {summary or 'no summary'} ({time.time()-t:.0f}s)")
        notes.append(f"seed {sd}: {summary}")
        if not okc:
            what = "data race reported by the Go race detector" if "DATA RACE" in detail else "concurrent result differs from the sequential run"
            failing.append({"op": f"conc seed={sd} per_domain={per} goroutines=64", "result": what + ": " + detail[:1500], "oracle": "conc", "seed": sd})
        if os.path.exists(ops) and not os.environ.get("VERIF_KEEP"):
            os.remove(ops)
    ev_cov["concurrent_ops"] = total
    ev_cov["goroutines"] = 64
    ev_cov["evaluations_override"] = 2 * total


def c08_extra(prop, tier, seed, broken, failing, ev_cov, notes):
    """C08's model treats NASEncrypt / NASMacCalculate as functions of their arguments; `security_stateless` re-decides on the
    regenerated facts that the security packages keep no package-level state written at call time. When an obligation is
    broken and the sequential oracles found nothing, look for a failing schedule: the cipher/MAC ops from 64 goroutines under
    the race detector, results compared with the sequential run."""
    import core, time
    if not broken or failing:
        return
    ok, out = core.build_race_harness()
    if not ok:
        return
    t = time.time()
    okc, summary, detail, n, ops = core.run_conc(seed, 1500, domains=["security", "secapi"])
    core.log(f"conc (security ops) seed {seed}: {summary or 'no summary'} ({time.time()-t:.0f}s)")
    notes.append(f"conc security seed {seed}: {summary}")
    if not okc:
        what = "data race reported by the Go race detector" if "DATA RACE" in detail else "concurrent result differs from the sequential run"
        failing.append({"op": f"conc seed={seed} per_domain=1500 goroutines=64 domains=security,secapi", "result": what + ": " + detail[:1500], "oracle": "conc", "seed": seed})
    if os.path.exists(ops) and not os.environ.get("VERIF_KEEP"):
        os.remove(ops)


import os

CODEC_MODS = ["NasVerif.Props.Codec"]

PROPS = {
    "C01": dict(
        level="proof", modules=CODEC_MODS + ["NasVerif.Props.C01"], parts=["Codec"],
        streams=[("codec-dec", 6000, 60000)], oracle="C01", trusted_base=TB_CODEC,
        rule="table-driven decode inputs (every message x slot x probe length x truncation point, reordered/duplicated/unknown IEIs, malformed edits, 70 kB runs); non-trivial = distinct input the implementation decodes successfully; element contents are structured (fills, small alphabet, embedded 16-bit lengths, counted and length-prefixed lists); when an obligation is broken the deep families of the focused search run for the place it names (thorough: for every message); an allocation / time excess counts only when present in four measurements",
        assumptions=["the allocation theorem counts the octets the decoder requests (make + optional-element structs); Go runtime rounding and encoding/binary / reflect temporaries are measured against a bound (512*len + 4*64KiB + 16KiB), not proved"],
    ),
    "C02": dict(
        level="proof", modules=CODEC_MODS + ["NasVerif.Props.C02"], parts=["Codec"],
        streams=[("codec-enc", 1500, 20000)], oracle="C02", trusted_base=TB_CODEC,
        rule="well-formed messages generated from the extracted tables (optional subsets, legal lengths, random content); non-trivial = distinct op the implementation accepts; constant fills (00.., ff..) of every lengthed element at every legal length; caller-built headers and stale stored lengths are emitted for the other oracles and skipped here (not well formed)",
    ),
    "C03": dict(
        level="proof", modules=CODEC_MODS + ["NasVerif.Props.C03"], parts=["Codec"],
        streams=[("codec-dec", 4000, 40000), ("codec-enc", 1000, 10000)], oracle="C03", trusted_base=TB_CODEC,
        rule="accepted inputs incl. reordered/duplicated/unknown optional elements (dec;enc;dec;enc) and canonical encodings rendered from the tables (byte-exact)",
    ),
    "C05": dict(
        level="proof", modules=CODEC_MODS + ["NasVerif.Props.C05"], parts=["Codec"],
        streams=[("dispatch", 1, 1)], oracle="C05", trusted_base=TB_CODEC + ["spec/dispatch.json pinned from TS 24.501 Tables 9.7.1/9.7.2"],
        rule="exhaustive 256x256 (discriminator, type) pairs at both header offsets with minimal valid bodies; all inputs of length 0..2, sampled 3..4; encode dispatch over all 256 types; non-trivial = accepted; zero / typeless headers with a body attached; complete messages nested in container elements x container-type nibble; the header view is also read and written through its accessors",
    ),
    "C11": dict(
        level="proof", modules=["NasVerif.Props.C11", "NasVerif.Props.C11Tie"], parts=["Counter"],
        streams=[("counter", 4000, 20000)], oracle="C11",
        trusted_base=TB_COMMON + ["tools/extract intx: Go uintN expressions -> BitVec N (wrap-around +, shifts by constants, &,|,^, conversions = setWidth)"],
        rule="random op sequences (set/setSQN/setOverflow/inc/reads) biased to edge values + carry boundaries + increment walks (thorough: all 2^24 states); non-trivial = distinct op sequence executed",
    ),
    "C09": dict(
        level="proof", modules=["NasVerif.Props.C09"], parts=["Acc"],
        parts_filter={"Codec": r"nasType\.\w+\.(SetLen|GetLen|SetIei|GetIei)\b"},  # the identifier / length accessors: shapes checked by the codec part
        streams=[("acc", 24, 200)], oracle="C09",
        trusted_base=TB_COMMON + ["tools/extract accessors: typed Go expression -> Acc.E (literal transcription; GetBitMask inlined from its own body)",
                                   "Spec/AccessorLayout.lean + spec/accessor_layout.json: the Row/sBit/len annotations at the pinned commit (TS 24.501 figure layouts)",
                                   "Buffer-backed accessors: theorems assume the Buffer is long enough to contain the field's rows (a shorter Buffer makes the Go accessor panic)"],
        rule="every accessor pair x (all-zero / all-one / random prior contents) x (0, max, field-width boundary, random values); thorough: exhaustive 256x256 per single-octet 8-bit-typed field; non-trivial = distinct op executed; the text pair DNN.SetDNN/GetDNN (op accs: dotted texts with empty labels, labels of 61..64 and coded lengths of 98..101 octets); the identifier / length accessors of array-backed elements (op accl: SetLen / SetIei leave the contents alone); slice-typed setters called with a window of the element's own contents (op accra)",
    ),
    "C04": dict(
        level="proof", modules=CODEC_MODS + ["NasVerif.Props.C04"], parts=["Codec"],
        streams=[("spec", 25, 300, "spec"), ("codec-dec", 3000, 30000), ("codec-enc", 400, 4000, "model", "C02"), ("dispatch", 1, 1, "model", "C05")], oracle="C01",
        trusted_base=TB_CODEC + ["Spec/Tables.lean: the 45 message tables in TS 24.501 vocabulary, derived from the generated code at the pinned commit and reviewed against TS 24.501 V15.7 §8.2/§8.3",
                                  "Spec/Msg.lean: renderer and table-driven decoder written from TS 24.007 §11.2 framing rules"],
        rule="per message: well-formed messages (spec renderer vs real encoder), canonical + shuffled/duplicated/unknown/boundary-length/truncated inputs (spec table-driven decoder vs real decoder), plus the table-driven model correspondence stream; non-trivial = accepted",
    ),
    "C06": dict(
        level="proof", modules=["NasVerif.Props.C06", "NasVerif.Props.CryptoLeafTie"], parts=["Crypto", "Globals"], extra=c08_extra,
        streams=[("secspec", 1000, 6000, "spec"), ("security", 2000, 12000)], oracle=None,
        trusted_base=TB_COMMON + ["Spec/Snow3G.lean, Spec/ZUC.lean, Spec/EEA.lean, Spec/AES.lean: transcriptions of the ETSI/SAGE, ZUC v1.6, EEA3/EIA3 v1.8, FIPS-197, SP 800-38A/B, TS 33.401 Annex B specifications, validated on published vectors",
                                   "hand-written Model/Snow3g.lean, Model/Zuc.lean, Model/Security.lean mirror the Go functions; the leaf functions (snow3g mulx/mulxPow/s1/s2/mulAlpha/divAlpha, zuc rot/l1/l2/makeU32, security mulx/mulxPow) are in addition regenerated from the source on every run (tools/extract/leaf.go -> Gen/CryptoLeaf.lean) and proved equal to the model's (Props/CryptoLeafTie.lean); loops and state-passing methods are tied by the correspondence run (keystreams, leaf functions through verif hooks, NEA/NIA at every bit length)",
                                   "crypto/aes, cipher.NewCTR, github.com/aead/cmac: modelled by Spec.AES (compared on every run)"],
        rule="direct Go-vs-specification stream: every bit length 0..200 (thorough 0..700) x 3 algorithms, all 32 bearers x 2 directions, random keys/counts (incl. 0xffffffff), random longer payloads; plus model correspondence (keystreams, leaf functions, per-algorithm functions); non-trivial = distinct op executed; same parameters again with other lengths, neighbouring parameter sets (single and double bit flips of COUNT / BEARER / DIRECTION) back to back, LFSR feedback sums steered to every small residue, surplus octets and slack bits behind LENGTH for NEA1 / NEA3 / NIA3; every input slice is a window of a larger buffer",
    ),
    "C07": dict(
        level="proof", modules=["NasVerif.Props.C07", "NasVerif.Props.CryptoLeafTie"], parts=["Crypto", "Globals"], extra=c08_extra,
        streams=[("secspec", 1000, 6000, "spec"), ("security", 2000, 12000)], oracle=None,
        trusted_base=TB_COMMON + ["same specification files and models as C06"],
        rule="as C06; MAC messages canonically packed (pad bits zero), every bit length incl. non-multiples of 8/32/64",
    ),
    "C08": dict(
        level="proof", modules=["NasVerif.Props.C08", "NasVerif.Props.CryptoLeafTie"], parts=["Crypto", "Globals"], extra=c08_extra,
        streams=[("secapi", 2000, 12000), ("security", 1000, 4000)], oracle="C08",
        trusted_base=TB_COMMON + ["Model/Security.lean NASEncrypt/NASMacCalculate mirror the Go guard sequence and switch; tied by the correspondence run over the (algorithm, bearer, direction, payload) grid"],
        rule="grid of algorithm ids (all 256) x bearers x directions x payloads (nil, empty, 1 octet, random) + every payload length 0..70 per algorithm + random lengths to 1500; oracle evaluates involution, prefix stability (every prefix), plaintext independence, validation, NULL algorithms, MAC length on the real code; payloads around every power of two up to 8 KiB (thorough 64 KiB); payloads, messages and prefixes passed as windows of larger buffers, the octets behind them checked",
    ),
    "C20": dict(
        level="proof", modules=["NasVerif.Props.C20"], parts=[],
        streams=[("idgen", 2000, 20000)], oracle="C20",
        trusted_base=TB_COMMON[:1] + ["hand-written Model/IdGen.lean mirrors UPSC_Generator.go (map = list of live offsets; scan loops with fuel = range size + adequacy lemma); tied by the correspondence run over operation histories",
                                        "int64 overflow not modelled (small ranges); Allocate_inRange arguments non-negative (a negative argument yields a negative Go remainder: outside the property, see DESIGN G1)"],
        rule="all op sequences up to depth 5 (thorough 6, sampled beyond depth 3 in quick) over ranges of size 1..3 (thorough 4) at three minimum values, alphabet = allocate / free of every id in and just outside the range / range allocations; plus random histories of up to 40 ops on ranges up to 12; non-trivial = distinct history executed",
    ),
    "C16": dict(
        level="proof", modules=["NasVerif.Props.C16"], parts=[],
        streams=[("pco", 1500, 15000)], oracle="C16",
        trusted_base=TB_COMMON[:1] + ["hand-written Model/Pco.lean mirrors PSI.go, PDUSessionReactivationResultErrorCause.go and the Marshal/UnMarshal state machine of ProtocolConfigurationOptions.go (binary.Read on a bytes.Reader modelled as list parsing); tied by the correspondence run",
                                        "the Add* convenience builders of ProtocolConfigurationOptions.go (net.IP handling) are not modelled"],
        rule="all 65 536 PSI bitmaps in both directions (exhaustive); generated unit lists (ids incl. 16-bit extremes, contents 0..255 octets, consistent and inconsistent lengths); parse inputs: exhaustive 1-2 octets, sampled 3-5, valid encodings truncated at random points, random bytes; non-trivial = distinct op; every container identifier 0x0001..0x0040 and the protocol identifiers with empty / short / 255-octet contents, repeated units; scripts of the Add… builders (op pcobuild) with 4-, 16-octet, IPv4-mapped and ill-sized addresses",
    ),
    "C17": dict(
        level="proof", modules=["NasVerif.Props.C17"], parts=[],
        streams=[("conv17", 1500, 20000)], oracle="C17",
        trusted_base=TB_COMMON[:1] + ["hand-written Model/Conv17.lean mirrors GPRSTimer2/3.go, SessionAMBR.go, Time.go, NetWorkName.go (strings = List Char with checked indexing; strconv.ParseUint, strings.Split modelled); tied by the correspondence run",
                                        "Go's time package (time.Date normalisation, FixedZone) is trusted: the theorem is about the BCD/semi-octet transport of the six fields and the zone octet",
                                        "spec decoders (TS 24.008 Tables 10.5.163/163a, TS 23.040 time zone, TS 23.038 7-bit packing) are transcriptions"],
        rule="all timer-2 durations 0..11200 s, timer-3 durations 0..1116100 s in steps of 7 (thorough: all) plus every k*unit +-1; AMBR boundary values x units + 3000 random (thorough: all 65536); all 480 zone x DST texts; all 256 zone/DST octets; universal time at year/month/leap boundaries + random instants x zones; names of every length 0..70 x 3 fillings x 2 kinds; non-trivial = distinct op",
    ),
    "C14": dict(
        level="proof", modules=["NasVerif.Props.C14"], parts=[],
        streams=[("conv14", 300, 3000)], oracle="C14",
        trusted_base=TB_COMMON[:1] + TB_CONV,
        rule="per helper (9 raw-contents helpers, RequestedNssaiToModels on decoded IEs, 15 MobileIdentity5GS getters): all contents of length 0..1, length 2 stratified (thorough: all 65 536), random length 3, every identity type x SUPI format x length 1..20 x 3 fillings, valid SUCI/GUTI/PEI/S-TMSI/NSSAI/LADN/DNN/UPU values with every truncation and mutations, every length octet 0..255 at list heads; text variants (GUTI, AMF id): every length 0..24 and every position replaced by non-digit/non-hex/non-ASCII bytes; all 256 time-zone/DST octets; non-trivial = distinct op the implementation answers with a value",
        assumptions=["RequestedNssaiToModels is evaluated on IE values with Len = len(Buffer) (what the message decoder produces: C03 decode_wf); a hand-built IE with Len > len(Buffer) panics in Go and in the model alike and is outside the property",
                     "a Go call that does not return within 5 s is reported as hang"],
    ),
    "C12": dict(
        level="proof", modules=["NasVerif.Props.C12"], parts=[],
        streams=[("conv12", 300, 1500)], oracle="C12",
        trusted_base=TB_COMMON[:1] + TB_CONV + ["Spec/Identity.lean: octet layouts of TS 24.501 9.11.3.4 / TS 24.008 10.5.1.13 and text formats of TS 23.003 (transcriptions); the Go-side oracle holds a second, independent reading of the same figures"],
        rule="PLMNs both ways (quick: boundary + 2500 random; thorough: all 10^5 + 10^6), AMF ids (field boundaries, random; thorough: every set id x pointer, all 2^16 low octets) both ways incl. upper-case and invalid texts, GUTI text->wire->text and wire->text->wire (valid, one-character corruptions, length mutations, high set ids), SUCI (every routing-indicator length, null/non-null schemes, every last scheme-output octet), IMEI/IMEISV (15/16 and other digit counts), 5G-S-TMSI, MobileIdentity5GS getters on the same contents; non-trivial = distinct op answered with a value",
    ),
    "C13": dict(
        level="proof", modules=["NasVerif.Props.C13"], parts=[],
        streams=[("conv13", 300, 2000)], oracle="C13",
        trusted_base=TB_COMMON[:1] + TB_CONV + ["Spec/Lists.lean: decoders written from TS 24.501 9.11.2.8 / 9.11.3.37 / 9.11.3.46 / 9.11.3.9 / 9.11.3.49 / 9.11.3.29-30 (transcriptions); the Go-side oracle holds a second, independent set of decoders"],
        rule="every SST with/without SD; requested NSSAI lists of 0..12 entries over the five element forms (homogeneous and mixed), truncations, corrupted and all 256 head length octets; rejected NSSAI 0..8 + 0..8 entries; TAI lists of 1..20 entries x five PLMN-mix modes (one PLMN, all different, same MCC / different MNC, 2- vs 3-digit MNC, last entry differs); LADN with DNN lengths 0..255; service-area lists of 0..20 TACs x both restriction types; LADN indications valid and mutated; non-trivial = distinct op answered with a value; TAC families (consecutive, shuffled, duplicated, first/last n-1 apart, descending); complete NSSAI entries of every non-form length at head / middle / tail; octet pools {1,2}; every conversion called twice with the same argument slices",
        assumptions=["lists outside the property's ranges (17+ TAIs, 0 TACs, contents over 255 octets) are compared between model and implementation but not judged by the oracle"],
    ),
    "C15": dict(
        level="proof", modules=["NasVerif.Props.C15"], parts=[],
        streams=[("qos", 300, 2500)], oracle="C15",
        trusted_base=TB_COMMON[:1] + ["hand-written Model/Qos.lean mirrors nasType/qos_flow_desc.go and qos_rule.go (bytes.Buffer + binary.Read modelled as list consumption with io.EOF / io.ErrUnexpectedEOF distinguished, buf.Next(n) = at most what is left; components and parameters as inductive types); tied by the correspondence run",
                                        "encoding/binary BigEndian Put/Read and net.IP / net.HardwareAddr as plain octet strings: modelled, not verified",
                                        "tools/harness/qos.go holds independent encoders written from TS 24.501 Figures 9.11.4.12.x / 9.11.4.13.x (layout oracle, wire-input generator)"],
        rule="both parsers: every input of length 0..1, length 2 sampled (thorough: all 65 536), random 3..14 octets; well-formed lists from an independent figure-based encoder (all 7 parameter kinds, 0/1/7/63 parameters; all 18 component types, 0..15 filters, operations 1..6 incl. delete lists) parsed whole, truncated at every octet and mutated; unknown parameter / component identifiers planted at identifier positions; every (identifier, length) mismatch 0..8 x 0..5; serialise-and-reparse of the same lists; counts at the 6-bit / 4-bit boundaries and oversize values for the correspondence; non-trivial = distinct op answered with a value",
        assumptions=["lists outside the well-formed set (64+ parameters, 16+ filters, flow label >= 2^19, wrong address lengths, > 255 octets of components) are compared between model and implementation but not judged by the oracle"],
    ),
    "C18": dict(
        level="proof", modules=["NasVerif.Props.C18"], parts=[],
        streams=[("uepolicy", 200, 1500)], oracle="C18",
        trusted_base=TB_COMMON[:1] + ["hand-written Model/UePolicy.lean mirrors the uePolicyContainer package (nested length-prefixed parsers over bytes.Buffer.Next with uint16 length arithmetic that wraps, io.EOF ending every list walker, marshalers that recompute lengths); tied by the correspondence run",
                                        "encoding/binary / bytes.Buffer semantics modelled (Model/Qos.lean readers + readBytes)",
                                        "tools/harness/uepolicy.go: independent Annex-D encoders for wire inputs; the PLMN oracle compares SetPlmnDigit with nasConvert.PlmnIDToNas and the TS 24.008 layout"],
        rule="three decoders: every input of length 0..1, length 2 sampled (thorough: all 65 536), random 3..16 octets biased to small length fields; well-formed lists (0..3 sublists x 0..3 instructions x 0..3 parts, empty and 300-octet contents) whole, truncated at every octet, every 16-bit window set to 0/1/2/3/0xffff, mutated, and wrapped as command / reject messages; results likewise; messages built through the API and header/body mismatches; all 256 message types; PLMN setters of sublist and sub-result for every MCC 100..999 x 7 MNCs (thorough: all 990) and values around the accepted range; non-trivial = distinct op answered with a value; descriptions built through the construction API only (ops upc apil / apir / apim: constructors, setters, appenders, SetLen_byContent, SetPlmnDigit incl. values around its accepted range, SetNSSUI 0/1/other, SetPlmnDigit twice on one object, bodies of 33 000..65 000 octets) and read back through the getters",
    ),
    "C10": dict(
        level="proof", modules=CODEC_MODS + ["NasVerif.Props.C10"], parts=["Codec"],
        streams=[("codec-dec", 4000, 40000), ("codec-enc", 1200, 12000)], oracle="C10", trusted_base=TB_CODEC + [
            "modelled, not verified (Codec/Heap.lean): bytes.NewBuffer aliases its argument and only reads it, binary.Read copies into its destination, make returns fresh memory, binary.Write / Buffer.Write append — Go library semantics",
            "the translator's closed statement language: a codec statement outside the IR (e.g. `a.X.Buffer = buffer.Next(n)`) fails the run and is searched with the aliasing oracles on the real code"],
        rule="decode stream (table-driven valid, boundary, truncated, reordered, malformed inputs for all 45 messages and the three entry points): input snapshot before/after, decode twice, flip every input octet afterwards and re-read the message, scribble over every slice (and its spare capacity) of the message and re-read the input; encode stream (well-formed messages): encode into a pre-filled buffer with spare capacity, twice, compare prefix / outputs / deep message snapshot, flip the output and re-read the message; non-trivial = distinct op the implementation accepts; caller-built messages (type-only header view) and stale stored lengths in the encode stream; the snapshot covers the whole Message (header view, both family pointers)",
    ),
    "C19": dict(
        level="other", modules=["NasVerif.Props.C19"], parts=["Globals"],
        streams=[], oracle=None, corr=False, extra=c19_extra,
        trusted_base=TB_COMMON[:1] + ["tools/extract globals part: syntactic, conservative scan of typed ASTs for assignments to, address-taking of and reference escapes of package-level variables outside init (all library packages; internal/tools/** is a build-time generator and is excluded)",
                                        "the Go memory model, the standard library and logrus (internally synchronised handles are the only shared objects handed out) are not modelled",
                                        "the Go race detector (go build -race) and the harness's concurrent driver"],
        rule="op mix drawn from 14 generators (decode, encode, ciphers, MACs, accessors, identity/list/QoS/UE-policy helpers, counter, allocator, PCO, timers), each line building its own values; executed once sequentially and once from 64 goroutines dealt round-robin (odd goroutines walk backwards) under the race detector, plus 200 decoded messages re-read and re-encoded by all goroutines at once; every concurrent outcome compared with the sequential one; a contended phase (per op kind every goroutine repeats its own line at the same time); shared read-only values besides decoded messages (PCO Marshal, QoS MarshalBinary); the nasConvert readers applied to every buffer of every shared message; an unlocked io.Writer installed as the logger output",
        explanation="Partial by nature. Proved in Lean: (1) in an abstract interleaving semantics where no step writes the shared store and each thread writes only its own store, every schedule gives every thread the result of its own sequential run; (2) on the facts regenerated from every library package on this run, no function other than init assigns a package-level variable, takes its address or hands out a reference to it, and the module imports neither unsafe nor cgo (decide). Together: a library call is a function of read-only globals and its arguments. Not expressible in the model and therefore checked at run time only: the Go memory model, races inside the standard library / logrus, arguments that share memory. The run-time half executes a generated op mix from 64 goroutines under the Go race detector and compares every result with the sequential run.",
        assumptions=["goroutines operate on distinct values (each op line constructs its own) or only read a shared decoded message", "schedules are sampled by the Go scheduler under -race, not enumerated"],
    ),
}
