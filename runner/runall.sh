#!/bin/sh
# run every registered check (quick tier unless $1 given) on the current tree; summary on stdout
cd "$(dirname "$0")/.."
tier=${1:-quick}
for p in $(python3 -c "import json;print(' '.join(c['property_id'] for c in json.load(open('MANIFEST.json'))['checks']))"); do
  s=$(date +%s)
  out=$(./check $p --tier $tier 2>&1); rc=$?
  echo "$p rc=$rc $(( $(date +%s) - s ))s $(echo "$out" | grep -c VIOLATION) violations; $(echo "$out" | tail -1)"
done
