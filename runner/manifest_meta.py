CODEC_NOTE = ("Trusted: Lean kernel; tools/extract (typed-AST recogniser of the 90 generated codec functions, dispatchers and IE helper "
              "methods; anything outside its IR fails the run); the interpreter clauses of Codec/Defs.lean as the meaning of "
              "binary.Read/Write + bytes.Buffer (modelled, compared with the real code on every run); the harness generators.")
META = {
    "C01": dict(text="Kernel-checked theorems: for every byte string (nil and empty included) PlainNasDecode/GmmMessageDecode/GsmMessageDecode and each of the 45 Decode<Msg> return a message or an error, never panic, and the optional-element loop terminates because each iteration consumes an octet (fuel-adequacy lemma); instantiated with the tables regenerated from /repo on this run and re-decided (`Top.wf` by `decide`). Allocation is measured against a linear bound on the real code, not proved.",
                note=CODEC_NOTE + " Allocation/time bound: measured (runtime.MemStats) on generated inputs up to 70 kB.",
                technique="Lean 4 proof (generic codec interpreter + decide on regenerated tables) with Go/Lean correspondence"),
    "C02": dict(text="Kernel-checked round-trip theorem for every table passing the decidable well-formedness check, lifted through the dispatchers to PlainNasEncode/PlainNasDecode for all 44 types and to the 45 direct codecs (envelope included), for every well-formed message value (all optional subsets, lengths, contents).",
                note=CODEC_NOTE, technique="Lean 4 proof (induction over the optional-element loop) with Go/Lean correspondence"),
    "C03": dict(text="Kernel-checked: decoder output satisfies the encoder precondition; dec;enc;dec;enc is a fixed point; encodings of well-formed messages (canonical inputs) are reproduced byte for byte. For all inputs and all 45 tables regenerated this run.",
                note=CODEC_NOTE, technique="Lean 4 proof (decode_wf + roundtrip) with Go/Lean correspondence"),
    "C05": dict(text="Kernel-checked theorems about the model of nas.go/nas_generated.go built from the regenerated dispatch tables: nil/empty/short/unknown-EPD/unknown-type inputs are errors; a successful decode populates exactly one family and one body, the one named by the type octet, with header view = body header octets; encode dispatch is symmetric. The real code is swept over all 256x256 (EPD,type) pairs each run.",
                note=CODEC_NOTE + " spec/dispatch.json is pinned from TS 24.501 Tables 9.7.1/9.7.2.",
                technique="Lean 4 proof over regenerated dispatch tables + exhaustive (EPD,type) correspondence sweep"),
}
META["C11"] = dict(
    text="Kernel-checked theorems about the BitVec 32 definitions regenerated from security/counter.go on this run: invariant count < 2^24 in every state reachable by any operation sequence (induction over op lists), value = overflow*256 + sqn, AddOne = +1 mod 2^24 with carry/wrap, SetSQN/SetOverflow independence, reads pure, all 2^24 states reachable.",
    note="Trusted: Lean kernel; the integer-expression translator (Go uint semantics -> BitVec); validated each run by running the generated definitions against security.Count on random op sequences, all carry boundaries and increment walks.",
    technique="Lean 4 proof over a BitVec model regenerated from counter.go (translator) + Go/Lean correspondence")

META["C09"] = dict(
    text="Every scalar getter/setter body of nasType (539 pairs) is regenerated as a typed expression and checked by a symbolic bit-level executor that is proved sound once in Lean (sym_sound); the per-run obligation `pairs.all pairOK` is a kernel `decide`. Theorems: getter reads exactly the documented bits, set-then-get = value mod 2^len, setter frame (no bit outside the field changes), non-overlapping fields keep their value; for all prior contents and values. 53 octet-range pairs: generic list theorems + decidable row check. Layouts equal the pinned annotations.",
    note="Trusted: Lean kernel; the expression translator (validated each run by evaluating the generated expressions against the real accessors on generated contents/values); the pinned layout table; Go reflection in the harness. Iei/Len plain-field accessors are recognised structurally (not bit fields). DNN.GetDNN/SetDNN is a text conversion (C14).",
    technique="Lean 4 proof: verified symbolic bit executor + decide over accessors regenerated from nasType; Go/Lean correspondence")

META["C04"] = dict(
    text="Kernel-checked: the tables extracted from the 90 generated functions on this run, read in TS vocabulary (format, IEI, admissible lengths), equal the pinned TS 24.501 tables (`decide`); for every such table the encoder's output equals the independent TS 24.007 renderer (`encode_layout`), the decoder's accept set and field values equal the independent table-driven decoder's (`decode_agree`: any order, last duplicate wins, lengths within bounds), and everything else is an error (`decode_rejects`). The real code is additionally compared with the pinned spec decoder/renderer directly on every run.",
    note=CODEC_NOTE + " Pinned Spec/Tables.lean (reviewed against TS 24.501 V15.7) and Spec/Msg.lean (TS 24.007 framing) are the top of the trust chain.",
    technique="Lean 4 proof (encoder = spec renderer, decoder = spec table-driven decoder, tables = pinned tables by decide) + direct Go-vs-spec differential run")

SEC_NOTE = ("Trusted: Lean kernel; the hand-written models of security.go / snow3g.go / zuc.go (tied to the code by the correspondence run, "
            "incl. unexported leaf functions through build-tag-guarded hooks); the specification transcriptions (validated on published vectors); "
            "AES/CTR/CMAC libraries modelled by Spec.AES. Lookup tables are regenerated from the source and compared with the standards' tables by decide.")
META["C06"] = dict(
    text="Partial proof. Kernel-checked: source S-box/D tables = standards' tables; modelled snow3g.GetKeyStream = SNOW 3G specification keystream for every key/IV/length; NEA2 = 128-EEA2 for every block cipher, key, COUNT, bearer 0-31, direction, payload. Not yet proved (stated as *_statement in Props/C06.lean): ZUC LFSR refinement and the NEA1/NEA3 byte loops vs the bit-string definitions; those are checked each run by comparing the real Go functions with the independent bit-level specifications at every bit length 0..200, all bearers/directions.",
    note=SEC_NOTE, technique="Lean 4 proof (partial: SNOW 3G refinement, EEA2) + direct Go-vs-specification differential run")
META["C07"] = dict(
    text="Partial proof. Kernel-checked: NIA1's GF(2^64) mulx/mulxPow/mul = MULx/MULxPOW/MUL of the UIA2 specification for all operands; its keystream is the specification's; NIA2 = 128-EIA2 for every block cipher. Not yet proved: NIA1 block loop vs f9 and NIA3 bit loop vs 128-EIA3 (stated); checked each run by the direct Go-vs-specification stream at every message bit length.",
    note=SEC_NOTE, technique="Lean 4 proof (partial: GF(2^64) arithmetic, EIA2) + direct Go-vs-specification differential run")
META["C08"] = dict(
    text="Kernel-checked on the model of NASEncrypt/NASMacCalculate for all algorithm ids/bearers/directions/payloads: invalid arguments give an error and leave the payload untouched; algorithm 0 is the identity / zero MAC; a MAC is exactly 4 octets; for algorithm 2 (any 16-octet block cipher): length preservation, involution, prefix stability, plaintext independence. The same laws for algorithms 1 and 3 and panic-freedom for every length are stated and evaluated on the real code by the oracle each run (not yet proved).",
    note=SEC_NOTE, technique="Lean 4 proof (validation/NULL/MAC-length laws, AES-CTR laws) + Go/Lean correspondence + law oracle on the real code")

META["C20"] = dict(
    text="Kernel-checked, for every operation sequence from NewGenerator(min,max), min<=max (induction over op lists with a representation invariant): every id returned by Allocate / Allocate_inRange is within [min,max] and not live; Allocate fails only when all ids are live (and succeeds otherwise); FreeID removes exactly that id, out-of-range frees are no-ops; a freed id is allocatable again; the scan loops terminate by returning to the start offset (fuel-adequacy lemma).",
    note="Trusted: Lean kernel; the hand-written model of UPSC_Generator.go, tied by running identical histories through the real allocator and the model on every run; oracle evaluates the property on the real allocator with an abstract live set.",
    technique="Lean 4 proof (invariant by induction over operation histories on a hand model) + Go/Lean correspondence on histories")

META["C16"] = dict(
    text="Kernel-checked on the hand model: PSI bitmap <-> 16-boolean array is the identity in both directions for all 65 536 values (proved per octet: `decide` over 256 values / 8 booleans, lifted structurally); Marshal starts with 0x80 and UnMarshal(Marshal l) = l for every unit list with LengthOfContents = |Contents| (induction over the list); UnMarshal never panics on any bytes and every unit it yields is a contiguous part of the input at the position its identifier/length octets dictate.",
    note="Trusted: Lean kernel; the hand model (tied by correspondence incl. the exhaustive bitmap sweep each run); net.IP-based Add* builders not modelled.",
    technique="Lean 4 proof on a hand model (list induction + finite decide) + Go/Lean correspondence incl. exhaustive 2^16 sweep")

META["C17"] = dict(
    text="Kernel-checked on hand models of the (repaired) helpers: GPRS timer 2 and 3 — every representable duration decodes to itself and no duration in range decodes to more than requested (arithmetic proof over the unit ladder; finite parts by decide); session AMBR — any decimal numeral <= 65535 with unit Kbps..Pbps encodes to BE16 value + Table 9.11.4.14.1 code (proof over numeral strings); time zone — all 480 zone x DST texts decode to zone + adjustment when representable (decide over the whole grid), DST IE round trip; universal-time two-digit fields round-trip (decide over 0..99). Network name: spare-bit/length header for every n proved; unpack(pack name) = name is proved only for 1-character names and checked instances (partial) and evaluated on the real code for every length 0..70 each run. Defects F11, F12, F14 were repaired in /repo (fix: commits).",
    note="Trusted: Lean kernel; hand models tied by correspondence (full timer ranges, whole zone grid, AMBR sweep each run); Go time package; spec decoder transcriptions.",
    technique="Lean 4 proof on hand models (omega over the unit ladder, decide over finite grids; network-name round trip partial) + Go/Lean correspondence with full-range sweeps")

CONV_NOTE = ("Trusted: Lean kernel; the hand-written model Model/Convert.lean (checked indexing, fuel-bounded loops), tied to the code by running "
             "every helper and the model on the same generated contents each run; the Go library models of Prelude/GoLib.lean "
             "(hex, RotateLeft8, strings.Index/Join, Sprintf %x/%d, Atoi on one byte).")
META["C14"] = dict(
    text="Kernel-checked on the hand model, for every byte string (resp. every text): SuciToStringWithError, naiToString, GutiToStringWithError, GutiToNasWithError, PeiToStringWithError, AmfIdToNasWithError, RequestedNssaiToModels (on decoded IEs) / snssaiToModels, LadnToModels, UESecurityCapabilityToByteArray, PSIToBooleanArray, UpuAckToModels, DNN.GetDNN and the 15 MobileIdentity5GS text getters return a value or an error, never a panic (every index and slice bound is discharged), and the three loops (NSSAI, LADN, DNN) finish within a fuel bound because each iteration advances (running out of fuel is a panic in the model). The real functions are run on exhaustive short and structured contents each run with a panic/hang oracle. Defects F2-F7 were repaired in /repo (fix: commits).",
    note=CONV_NOTE, technique="Lean 4 proof (NoPanic weakest-precondition calculus over a hand model with checked indexing; induction with progress measure for the loops) + Go/Lean correspondence + panic/hang oracle")

META["C12"] = dict(
    text="Kernel-checked on the hand model against Spec/Identity.lean (layouts of TS 24.501 9.11.3.4 / TS 24.008 10.5.1.13, text formats of TS 23.003), for every valid identity: PLMN octets <-> text in both directions and both round trips (all 2- and 3-digit MNCs); AMF id text <-> (region, set, pointer) is the 8/10/6 split in both directions, for all 2^24 identifiers; 5G-GUTI text -> wire equals Figure 9.11.3.4.1 and wire -> text equals the TS 23.003 text, both round trips, all PLMNs x 2^24 AMF ids x 2^32 TMSIs; IMEI/IMEISV of any digit count; SUCI (IMSI format) for every routing indicator of 1..4 digits, null scheme (any MSIN) and schemes 1..15 (any output octets). Invalid GUTI text (length, non-digit PLMN) and invalid AMF id text are errors (from the acceptance characterisation + C14 no-panic). Finite nibble facts by `decide` over 16x16 / 256 / 1024 cases, lifted by structural proofs.",
    note=CONV_NOTE + " Spec/Identity.lean is a transcription of the 3GPP figures; the Go-side oracle (tools/harness/convert12.go) is a second independent reading used for counterexample search.",
    technique="Lean 4 proof (model = independent layout/text specification for all valid identities; round trips as corollaries) + Go/Lean correspondence + layout/round-trip oracle on the real code")

META["C13"] = dict(
    text="Kernel-checked on the hand model against decoders written from the TS 24.501 figures (Spec/Lists.lean): RequestedNssaiToModels on a decoded IE equals the specification NSSAI decoder on EVERY byte string (values when it decodes, an error otherwise — reserved length octets and truncated elements included; induction over the walker with an offset/suffix invariant); it recovers every list of S-NSSAIs written by SnssaiToNas; the specification decoders recover exactly the input from RejectedNssaiToNas (all entries with their cause, contents up to 255 octets), TaiListToNas (1..16 identities, one PLMN -> type 00, several -> type 10), PartialServiceAreaListToNas (1..16 TACs, allowed type bit), LadnToNas (any DNN up to 255 octets + TAI list); LadnToModels recovers every well-formed LADN indication. Defects F5, F13 were repaired in /repo (fix: commits).",
    note=CONV_NOTE + " Spec/Lists.lean is a transcription of the 3GPP figures; tools/harness/convert13.go holds a second independent set of decoders used as the oracle.",
    technique="Lean 4 proof (library decoder = specification decoder for all bytes; specification decoder o library encoder = id for all lists in range) + Go/Lean correspondence + independent-decoder oracle on the real code")

META["C15"] = dict(
    text="Kernel-checked on the hand model: QoSFlowDescs.UnmarshalBinary and QoSRules.UnmarshalBinary return a value or an error for EVERY byte string and their loops finish within a fuel bound because each iteration consumes an octet (progress lemmas; fuel exhaustion is a panic in the model); an unknown parameter identifier / component type that is reached is an error; for every well-formed description list (<= 63 parameters of the 7 kinds, op <= 7) and rule list (op <= 7, <= 15 filters, ids/directions < 16, QFI < 64, all 18 component types with their field constraints, <= 255 octets of components per filter, delete lists) parse(serialise x) = x (induction over lists; big-endian packing via toNat/omega; header bit facts by decide over <= 256 cases); the serialised form is spelled out in numbers per Figures 9.11.4.12.x / 9.11.4.13.x. Defect F8 was repaired in /repo (fix: commit).",
    note="Trusted: Lean kernel; the hand model Model/Qos.lean (tied by the correspondence run on generated wire inputs and values); binary.BigEndian / bytes.Buffer semantics modelled; the independent figure-based encoders in tools/harness/qos.go (layout oracle).",
    technique="Lean 4 proof (totality with progress measure, round trip by list induction, bit-field facts by decide) on a hand model + Go/Lean correspondence + totality/unknown-identifier/round-trip/layout oracle on the real code")

META["C18"] = dict(
    text="Kernel-checked on the hand model: UePolDeliverySerDecode, UEPolicySectionManagementListContent.UnmarshalBinary and UEPolicySectionManagementResultContent.UnmarshalBinary return a value or an error for EVERY byte string and all five nested list walkers finish within a fuel bound (each parsed element consumes >= 3..5 octets; uint16 Len-1 / Len-3 wrap-around included); lists, results and command/complete/reject messages built through the API decode to the same structures with every length recomputed from content (induction over the three nesting levels); SetPlmnDigit of sublist and sub-result yields the TS 24.008 10.5.1.13 octets = PlmnIDToNas of the same digits for every MCC 100..999 x MNC 10..999 and the parsers read the numbers back (arithmetic proof). Defects F9, F10, F17 were repaired in /repo (fix: commits; F17 was found by this check).",
    note="Trusted: Lean kernel; the hand model Model/UePolicy.lean (tied by the correspondence run on generated wire inputs, values and all PLMNs in thorough); bytes.Buffer / binary.Read semantics modelled; IDGenerator is C20's subject.",
    technique="Lean 4 proof (totality with progress measures, three-level round trip by list induction, PLMN digit arithmetic) on a hand model + Go/Lean correspondence + totality/round-trip/PLMN-order oracle on the real code")

META["C10"] = dict(
    text="Kernel-checked over a heap-instrumented copy of the codec interpreter (heap = list of byte regions, input slice = one region, decoded Buffer = slice header into a region created by SetLen, Octet storage inside the message), for every table and so for the 45 regenerated on this run: decoding leaves every pre-existing region including the input untouched; every slice reachable from the decoded message lies in a region created during the call (fresh ids), hence mutating the input afterwards does not change the message and mutating the message does not change the input; rejected input yields the value-level error; the heap-free decoder of C01-C04 is the erasure of this one (simulation proved by induction over mandatory part and optional loop); the result depends only on the input contents; encoding appends the value-level encoding to the output region and changes no other region. On the real code the same facts are evaluated directly each run (aliasing is invisible to value comparison).",
    note=CODEC_NOTE + " Modelled rather than verified: copy/alias semantics of bytes.NewBuffer, binary.Read, make, binary.Write. Pairwise distinctness of the regions of different IEs is not proved (each is fresh w.r.t. everything that existed when it was created).",
    technique="Lean 4 proof (heap-instrumented interpreter, simulation/erasure theorem, freshness invariant) over regenerated tables + direct aliasing/mutation/determinism oracles on the real code")

META["C19"] = dict(
    text="Partial (level other): kernel-checked theorems that (1) in an interleaving semantics whose steps never write the shared store and write only their own thread's store, every schedule yields each thread's sequential result and the shared store is never changed; (2) on facts regenerated from every library package on this run, no function outside init assigns, takes the address of, or hands out a reference to a package-level variable, and neither unsafe nor cgo is imported. The Go memory model, the standard library and logrus are outside the model; the run-time half runs a generated op mix from 64 goroutines under the Go race detector each run and compares every result with the sequential run.",
    note="Trusted: Lean kernel; the globals scan of tools/extract (conservative, syntactic); the Go race detector; the harness's concurrent driver. Schedules are sampled, not enumerated. A new package-level cache / lazily initialised table breaks obligation (2); the race run then searches for the racing pair.",
    technique="Lean 4 proof (schedule-independence of read-only-shared threads + decide on regenerated global-variable facts) combined with a race-detector run of the real library (64 goroutines) as counterexample search")

NOT_APPLICABLE = {
 "C01": "check not built yet in this round (Lean model + correspondence planned, see DESIGN.md section 4); not claimed until it runs",
 "C02": "check not built yet in this round (Lean model + correspondence planned, see DESIGN.md section 4); not claimed until it runs",
 "C03": "check not built yet in this round (Lean model + correspondence planned, see DESIGN.md section 4); not claimed until it runs",
 "C04": "check not built yet in this round (Lean model + correspondence planned, see DESIGN.md section 4); not claimed until it runs",
 "C05": "check not built yet in this round (Lean model + correspondence planned, see DESIGN.md section 4); not claimed until it runs",
 "C06": "check not built yet in this round (Lean model + correspondence planned, see DESIGN.md section 4); not claimed until it runs",
 "C07": "check not built yet in this round (Lean model + correspondence planned, see DESIGN.md section 4); not claimed until it runs",
 "C08": "check not built yet in this round (Lean model + correspondence planned, see DESIGN.md section 4); not claimed until it runs",
 "C09": "check not built yet in this round (Lean model + correspondence planned, see DESIGN.md section 4); not claimed until it runs",
 "C10": "check not built yet in this round (Lean model + correspondence planned, see DESIGN.md section 4); not claimed until it runs",
 "C11": "check not built yet in this round (Lean model + correspondence planned, see DESIGN.md section 4); not claimed until it runs",
 "C12": "check not built yet in this round (Lean model + correspondence planned, see DESIGN.md section 4); not claimed until it runs",
 "C13": "check not built yet in this round (Lean model + correspondence planned, see DESIGN.md section 4); not claimed until it runs",
 "C14": "check not built yet in this round (Lean model + correspondence planned, see DESIGN.md section 4); not claimed until it runs",
 "C15": "check not built yet in this round (Lean model + correspondence planned, see DESIGN.md section 4); not claimed until it runs",
 "C16": "check not built yet in this round (Lean model + correspondence planned, see DESIGN.md section 4); not claimed until it runs",
 "C17": "check not built yet in this round (Lean model + correspondence planned, see DESIGN.md section 4); not claimed until it runs",
 "C18": "check not built yet in this round (Lean model + correspondence planned, see DESIGN.md section 4); not claimed until it runs",
 "C19": "check not built yet in this round (Lean model + correspondence planned, see DESIGN.md section 4); not claimed until it runs",
 "C20": "check not built yet in this round (Lean model + correspondence planned, see DESIGN.md section 4); not claimed until it runs"
}
NOTES = "See DESIGN.md. Every check regenerates the Lean model data from /repo, rebuilds the property's theorems, audits axioms, runs the Go/Lean correspondence and the property oracles."
