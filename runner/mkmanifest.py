#!/usr/bin/env python3
"""Regenerate MANIFEST.json from runner/props.py + runner/manifest_meta.py."""
import json, os, sys
sys.path.insert(0, os.path.dirname(os.path.abspath(__file__)))
from props import PROPS
from manifest_meta import META, NOT_APPLICABLE, NOTES
V = os.path.dirname(os.path.dirname(os.path.abspath(__file__)))
checks = []
for pid in sorted(PROPS):
    m = META[pid]
    checks.append({
        "property_id": pid,
        "quick_cmd": f"./check {pid} --tier quick",
        "thorough_cmd": f"./check {pid} --tier thorough",
        "evidence_file": f"/verif/evidence/{pid}.json",
        "replay_cmd_template": f"./check {pid} --replay {{path}}",
        "engine": "lean-proof+correspondence",
        "level_claimed": {"category": PROPS[pid]["level"], "text": m["text"], "design_ref": m.get("design_ref", "DESIGN.md section 4")},
        "level_note": m["note"],
        "technique": m["technique"],
    })
man = {
    "version": 1,
    "setup_cmd": "./setup.sh",
    "hooks": {"guard": "verif", "enable": "go build -tags verif (tools/harness links /repo through a replace directive)",
              "baseline_off_cmd": "cd /repo && GOFLAGS=-mod=mod GOPROXY=off GOSUMDB=off go test -vet=off -count=1 ./...",
              "source_commits": json.load(open(os.path.join(V, "runner", "hook_commits.json"))) if os.path.exists(os.path.join(V, "runner", "hook_commits.json")) else [],
              "add_only": True},
    "engines": [{"name": "lean-proof+correspondence", "path": "/verif/check",
                 "serves_properties": sorted(PROPS),
                 "kind_free_text": "Lean 4 theorems over a model regenerated from /repo by tools/extract (or hand-written), kernel-checked each run; Go differential harness vs compiled Lean driver; property oracles on the real code for counterexample search"}],
    "checks": checks,
    "notes": NOTES,
    "not_applicable": [{"property_id": p, "reason": r} for p, r in sorted(NOT_APPLICABLE.items()) if p not in PROPS],
}
json.dump(man, open(os.path.join(V, "MANIFEST.json"), "w"), indent=1)
print("MANIFEST.json:", len(checks), "checks,", len(man["not_applicable"]), "not_applicable")
