"""Orchestration for ./check: translator -> Lean build + axiom audit -> correspondence -> oracles -> evidence."""
import fcntl, hashlib, json, os, re, shutil, subprocess, sys, time

VERIF = os.path.dirname(os.path.dirname(os.path.abspath(__file__)))
REPO = os.environ.get("VERIF_REPO", "/repo")
LEAN = os.path.join(VERIF, "lean")
BUILD = os.path.join(VERIF, "build")
GEN = os.path.join(LEAN, "NasVerif", "Gen")
FACTS = os.path.join(BUILD, "facts")
DRIVER = os.path.join(LEAN, ".lake", "build", "bin", "driver")
SPECDRIVER = os.path.join(LEAN, ".lake", "build", "bin", "specdriver")
ALLOWED_AXIOMS = {"propext", "Classical.choice", "Quot.sound"}

GOENV = dict(os.environ, GOFLAGS="-mod=mod", GOPROXY="off", GOSUMDB="off", GOTOOLCHAIN="local",
             CGO_ENABLED=os.environ.get("CGO_ENABLED", "0"))


def sh(cmd, cwd=None, env=None, timeout=None, stdin=None, stdout=subprocess.PIPE):
    p = subprocess.run(cmd, cwd=cwd, env=env, timeout=timeout, stdin=stdin, stdout=stdout,
                       stderr=subprocess.STDOUT, text=True)
    return p.returncode, (p.stdout or "")


class Lock:
    def __enter__(self):
        os.makedirs(BUILD, exist_ok=True)
        self.f = open(os.path.join(BUILD, ".lock"), "w")
        fcntl.flock(self.f, fcntl.LOCK_EX)
        return self

    def __exit__(self, *a):
        fcntl.flock(self.f, fcntl.LOCK_UN)
        self.f.close()


def log(msg):
    print(f"[check] {msg}", flush=True)


# ---------------------------------------------------------------- build steps

REGISTRY = os.path.join(VERIF, "tools", "harness", "zz_registry_gen.go")


def modfile_args():
    """the tools module replaces github.com/free5gc/nas by /repo; when VERIF_REPO points elsewhere (a scratch worktree used to
    try a seeded change without touching /repo) build with an alternate modfile whose replace names that tree"""
    if REPO == "/repo":
        return []
    tools = os.path.join(VERIF, "tools")
    alt = os.path.join(BUILD, "alt.go.mod")
    os.makedirs(BUILD, exist_ok=True)
    open(alt, "w").write(open(os.path.join(tools, "go.mod")).read().replace("=> /repo", "=> " + REPO))
    shutil.copyfile(os.path.join(REPO, "go.sum"), os.path.join(BUILD, "alt.go.sum"))
    return ["-modfile=" + alt]


def build_tools(names=("extract",)):
    """go build extract / harness against /repo's working tree (hooks on). The harness is built after the
    translator ran, because the translator regenerates the harness's nasType registry."""
    tools = os.path.join(VERIF, "tools")
    shutil.copyfile(os.path.join(REPO, "go.sum"), os.path.join(tools, "go.sum"))
    for name in names:
        out = os.path.join(BUILD, name)
        if name == "harness" and os.path.exists(out):
            os.remove(out)  # never reuse a stale binary: it links the repo
        rc, o = sh(["go", "build"] + modfile_args() + ["-tags", "verif", "-o", out, "./" + name], cwd=tools, env=GOENV, timeout=600)
        if rc != 0:
            return False, f"go build {name} failed:\n{o}"
    return True, ""


def run_extract():
    """delete Gen/*, regenerate from /repo. returns (ok, output, unrecognised dict)"""
    os.makedirs(GEN, exist_ok=True)
    stash = {}
    for f in os.listdir(GEN):
        p = os.path.join(GEN, f)
        stash[f] = open(p).read()
        os.remove(p)
    os.makedirs(FACTS, exist_ok=True)
    if os.path.exists(REGISTRY):
        os.remove(REGISTRY)
    rc, o = sh([os.path.join(BUILD, "extract"), "-repo", REPO, "-out", GEN, "-facts", FACTS, "-registry", REGISTRY], timeout=600)
    if not os.path.exists(REGISTRY):
        open(REGISTRY, "w").write("package main\n")
    # keep mtimes stable for unchanged content so lake does not rebuild needlessly (lake hashes content anyway)
    unrec = {}
    try:
        unrec = json.load(open(os.path.join(FACTS, "unrecognised.json")))
    except Exception:
        pass
    return rc == 0, o, unrec


def lake_build(targets, timeout=3000):
    rc, o = sh(["lake", "build"] + targets, cwd=LEAN, timeout=timeout)
    return rc == 0, o


def lean_errors(out):
    """first error lines of a lake build log"""
    errs = []
    lines = out.splitlines()
    for i, l in enumerate(lines):
        if l.startswith("error:") and "build failed" not in l and "Lean exited" not in l:
            errs.append("\n".join(lines[i:i + 12]))
    return errs


def theorem_names(prop_file):
    src = open(prop_file).read()
    ns = re.search(r"^namespace\s+(\S+)", src, re.M).group(1)
    # strip comments
    src_nc = re.sub(r"/-.*?-/", "", src, flags=re.S)
    src_nc = re.sub(r"--.*", "", src_nc)
    names = [ns + "." + m for m in re.findall(r"^theorem\s+(\S+)", src_nc, re.M)]
    examples = len(re.findall(r"^example\b", src_nc, re.M))
    return names, examples


def audit(modules):
    """#print axioms for every theorem of the given Props modules. returns (theorems, bad, examples)"""
    names, examples = [], 0
    for mod in modules:
        path = os.path.join(LEAN, *mod.split(".")) + ".lean"
        n, e = theorem_names(path)
        names += n
        examples += e
    tmp = os.path.join(BUILD, "audit_%d.lean" % os.getpid())
    with open(tmp, "w") as f:
        for m in modules:
            f.write(f"import {m}\n")
        for n in names:
            f.write(f"#print axioms {n}\n")
    rc, o = sh(["lake", "env", "lean", tmp], cwd=LEAN, timeout=1200)
    os.remove(tmp)
    res = {}
    for m in re.finditer(r"'([^']+)' depends on axioms: \[([^\]]*)\]", o.replace("\n", " ")):
        res[m.group(1)] = [a.strip() for a in m.group(2).split(",") if a.strip()]
    for m in re.finditer(r"'([^']+)' does not depend on any axioms", o):
        res[m.group(1)] = []
    bad = {}
    for n in names:
        if n not in res:
            bad[n] = ["<not checked>"]
        else:
            extra = [a for a in res[n] if a not in ALLOWED_AXIOMS
                     and not (n.split(".")[-1].startswith("tie_") and "._native.bv_decide.ax_" in a)]
            if extra:
                bad[n] = extra
    return names, res, bad, examples, (o if rc != 0 else "")


def grep_forbidden(paths):
    pat = re.compile(r"\bsorry\b|\badmit\b|^axiom\s|native_decide|bv_decide|implemented_by|\bunsafe\s|maxHeartbeats 0")
    hits = []
    for root in paths:
        for dp, _, fs in os.walk(root):
            if ".lake" in dp:
                continue
            for f in fs:
                if not f.endswith(".lean"):
                    continue
                if f.endswith("Tie.lean"):
                    continue  # the declared decision-procedure fallback of a tie (axioms reported per theorem by the audit)
                src = open(os.path.join(dp, f)).read()
                src = re.sub(r"/-.*?-/", lambda m: "\n" * m.group(0).count("\n"), src, flags=re.S)
                for i, l in enumerate(src.splitlines(), 1):
                    l = re.sub(r"--.*", "", l)
                    if pat.search(l):
                        hits.append(f"{os.path.join(dp, f)}:{i}: {l.strip()}")
    return hits


# ---------------------------------------------------------------- correspondence

def gen_ops(domain, seed, n, tier, path, focus=None):
    with open(path, "w") as f:
        rc = subprocess.run([os.path.join(BUILD, "harness"), "gen", domain, "-seed", str(seed), "-n", str(n),
                             "-tier", tier, "-facts", FACTS] + (["-focus", focus] if focus else []),
                            stdout=f, stderr=subprocess.PIPE, text=True)
    return rc.returncode == 0, rc.stderr


def focus_targets(broken):
    """where to search, from what no longer checks: `nasMessage/NAS_<Msg>.go` -> msg:<Msg>; `nasType/NAS_<T>.go` -> type:<T>;
    nas.go / nas_generated.go -> entry; a table / well-formedness obligation that fails names its message in the Lean error"""
    t = []
    for b in broken:
        d = b.get("detail")
        d = json.dumps(d) if not isinstance(d, str) else d
        for m in re.finditer(r"nasMessage/NAS_(\w+)\.go", d):
            t.append("msg:" + m.group(1))
        for m in re.finditer(r"nasType/NAS_(\w+)\.go", d):
            t.append("type:" + m.group(1))
        if re.search(r"\bnas(_generated)?\.go", d):
            t.append("entry")
        for m in re.finditer(r"\b(?:dec|enc|msg)_(\w+)", d):
            t.append("msg:" + m.group(1))
    out = []
    for x in t:
        if x not in out:
            out.append(x)
    if not out:
        return None
    return ",".join(out[:12])


def run_go(ops_path, out_path, mode=("run",), timeout=3600, env=None):
    e = dict(os.environ, GOMEMLIMIT="6GiB", VERIF_SPEC=os.path.join(VERIF, "spec"))
    if env:
        e.update(env)
    with open(ops_path) as i, open(out_path, "w") as o:
        try:
            p = subprocess.run([os.path.join(BUILD, "harness")] + list(mode), stdin=i, stdout=o, stderr=subprocess.PIPE,
                               text=True, timeout=timeout, env=e)
        except subprocess.TimeoutExpired:
            return 124, "harness did not finish within %d s" % timeout
    if p.returncode == 3:
        return 0, "hang reported on the last line written"   # the short stream is turned into a disagreement / failing input
    return p.returncode, p.stderr


def run_driver(ops_path, out_path, timeout=3600, exe=None):
    with open(ops_path) as i, open(out_path, "w") as o:
        p = subprocess.run([exe or DRIVER], stdin=i, stdout=o, stderr=subprocess.PIPE, text=True, timeout=timeout)
    return p.returncode, p.stderr


def context_for(ops_path, index, impl_out, mode=("run",)):
    """a failure that depends on what earlier calls left behind: find a short run of the ops preceding op `index` after which the
    implementation again answers `impl_out` to it (0 preceding ops when it fails on its own). returns the list of ops"""
    with open(ops_path) as f:
        lines = f.read().splitlines()
    if index >= len(lines):
        return []
    tmp = os.path.join(BUILD, "ctx_ops.txt")
    for k in (0, 4, 32, 256, 2048, 16384, index):
        k = min(k, index)
        chunk = lines[index - k:index + 1]
        if sum(len(x) for x in chunk) > 8_000_000:
            break
        open(tmp, "w").write("\n".join(chunk) + "\n")
        run_go(tmp, tmp + ".out", mode=mode, timeout=600)
        out = open(tmp + ".out").read().splitlines()
        if len(out) == len(chunk) and out[-1][:2000] == impl_out:
            return chunk[:-1]
        if k == index:
            break
    return lines[max(0, index - 4):index]


def canon(line):
    """canonical outcome for comparison: error *class* is informational only"""
    t = line.split(" ", 2)
    if t and t[0] == "err":
        return "err"
    # composite ops (rt4/canon) embed 'err <class>' after a stage tag
    return re.sub(r"\berr \w+", "err", line)


def compare(ops_path, go_path, lean_path, limit=20):
    n = 0
    diffs = []
    counts = {}
    distinct = set()
    recent = []
    with open(ops_path) as fo, open(go_path) as fg, open(lean_path) as fl:
        for op, g, l in zip(fo, fg, fl):
            n += 1
            g = g.rstrip("\n")
            l = l.rstrip("\n")
            ctx = list(recent)
            recent = (recent + [op.rstrip("\n")[:4000]])[-4:]
            k = g.split(" ", 1)[0]
            counts[k] = counts.get(k, 0) + 1
            if k == "ok":
                distinct.add(hashlib.blake2b(op.encode(), digest_size=8).digest())
            if canon(g) != canon(l):
                if len(diffs) < limit:
                    diffs.append({"op": op.rstrip("\n")[:4000], "impl": g[:2000], "model": l[:2000], "context": ctx, "index": n - 1})
                else:
                    diffs.append(None)
    # length mismatch = crashed side
    lens = [sum(1 for _ in open(p)) for p in (ops_path, go_path, lean_path)]
    if len(set(lens)) != 1:
        diffs.append({"op": "<stream length>", "impl": str(lens[1]), "model": str(lens[2]), "ops": str(lens[0])})
    return n, diffs, counts, len(distinct)


def oracle_fails(ops_path, out_path, limit=50):
    fails = []
    counts = {"pass": 0, "skip": 0, "FAIL": 0, "other": 0}
    idx = -1
    with open(ops_path) as fo, open(out_path) as fr:
        for op, r in zip(fo, fr):
            idx += 1
            k = r.split(" ", 1)[0].strip()
            if k in counts:
                counts[k] += 1
            else:
                counts["other"] += 1
            if k not in ("pass", "skip"):
                if len(fails) < limit:
                    fails.append({"op": op.rstrip("\n")[:4000], "result": r.rstrip("\n")[:2000], "index": idx})
    return fails, counts


# ---------------------------------------------------------------- known findings / evidence / replays

def known_findings(prop):
    p = os.path.join(VERIF, "known_findings.jsonl")
    out = []
    if os.path.exists(p):
        for l in open(p):
            l = l.strip()
            if l and not l.startswith("#"):
                try:
                    d = json.loads(l)
                except Exception:
                    continue
                if d.get("property") == prop and d.get("status") == "known":
                    out.append(d)
    return out


def write_replay(prop, payload):
    d = os.path.join(VERIF, "replays")
    os.makedirs(d, exist_ok=True)
    h = hashlib.blake2b(json.dumps(payload, sort_keys=True).encode(), digest_size=6).hexdigest()
    path = os.path.join(d, f"{prop}-{h}.json")
    json.dump(payload, open(path, "w"), indent=1)
    return path


def write_evidence(prop, ev):
    # evidence/<id>.json describes runs against /repo itself; a trial against another tree (VERIF_REPO) is kept apart
    d = os.path.join(VERIF, "evidence") if REPO == "/repo" else os.path.join(BUILD, "evidence-trial")
    os.makedirs(d, exist_ok=True)
    json.dump(ev, open(os.path.join(d, f"{prop}.json"), "w"), indent=1)


# ---------------------------------------------------------------- C19: concurrent run under the race detector

CONC_DOMAINS = ["codec-dec", "codec-enc", "security", "secapi", "acc", "conv14", "conv12", "conv13", "qos", "uepolicy", "counter", "idgen", "pco", "conv17"]


def build_race_harness():
    tools = os.path.join(VERIF, "tools")
    out = os.path.join(BUILD, "harness-race")
    if os.path.exists(out):
        os.remove(out)
    env = dict(GOENV, CGO_ENABLED="1")
    rc, o = sh(["go", "build"] + modfile_args() + ["-race", "-tags", "verif", "-o", out, "./harness"], cwd=tools, env=env, timeout=900)
    return rc == 0, o


def run_conc(seed, per_domain, goroutines=64, timeout=3000, domains=None):
    """generate a mix of ops, run them sequentially and from `goroutines` goroutines under -race.
    returns (ok, summary line, race report or mismatch text, number of ops, ops file path)"""
    ops = os.path.join(BUILD, f"ops-conc-{seed}.txt")
    with open(ops, "w") as f:
        for d in (domains or CONC_DOMAINS):
            p = subprocess.run([os.path.join(BUILD, "harness"), "gen", d, "-seed", str(seed), "-n", "60", "-tier", "quick", "-facts", FACTS],
                               stdout=subprocess.PIPE, stderr=subprocess.PIPE, text=True)
            lines = p.stdout.splitlines()
            # a deterministic spread over the stream, stratified by op kind (first two tokens) so that rare kinds (encoders of
            # one element type, say) are not crowded out by the many decode inputs: round-robin over the kinds
            kinds = {}
            for l in lines:
                kinds.setdefault(" ".join(l.split()[:2]), []).append(l)
            # half the budget: uniform spread over the stream; the other half: round-robin over the kinds
            ustep = max(1, 2 * len(lines) // per_domain)
            picked, depth = lines[::ustep][:per_domain // 2], 0
            while len(picked) < per_domain and any(depth < len(v) for v in kinds.values()):
                for k in sorted(kinds):
                    v = kinds[k]
                    step = max(1, len(v) * len(kinds) // per_domain)
                    if depth * step < len(v) and len(picked) < per_domain:
                        picked.append(v[depth * step])
                depth += 1
            f.write("\n".join(picked) + "\n")
    n = sum(1 for _ in open(ops))
    env = dict(os.environ, GORACE="halt_on_error=1 exitcode=66", GOMEMLIMIT="8GiB")
    with open(ops) as i:
        p = subprocess.run([os.path.join(BUILD, "harness-race"), "conc", "-g", str(goroutines)], stdin=i, stdout=subprocess.PIPE,
                           stderr=subprocess.PIPE, text=True, timeout=timeout, env=env)
    summary = (p.stdout.strip().splitlines() or [""])[0]
    detail = ""
    if p.returncode != 0:
        detail = (p.stderr[:3000] if "DATA RACE" in p.stderr else (p.stdout + p.stderr)[:3000])
    return p.returncode == 0, summary, detail, n, ops
